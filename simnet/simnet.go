// Package simnet is the simulated TCP network: in-memory net.Conn pairs whose
// blocking points, delivery times and faults are owned by the simulator.
package simnet

import (
	"context"
	"errors"
	"fmt"
	"io"
	"net"
	"net/http"
	"os"
	"strings"
	"sync"
	"sync/atomic"
	"syscall"
	"time"

	"verif/simrt"
)

var curNet atomic.Pointer[Net]

// Net is one simulated network.
type Net struct {
	S *simrt.Sched

	mu        sync.Mutex
	hosts     map[string]string // host name or IP -> node
	listeners map[string]*Listener
	conns     []*Conn
	nextID    int

	// Latency returns the one-way delay for a chunk sent on c; nil = 0.
	Latency func(c *Conn) time.Duration
	// OnDial is called (on the dialling task) for every dial attempt.
	OnDial func(fromNode, toNode, addr string)
	// OnDeliver is called on the scheduler goroutine right after a chunk has been
	// delivered to endpoint c (fault placement by delivery count).
	OnDeliver func(c *Conn)
	// OnReadDone is called by the reading goroutine when a Read has taken n bytes
	// off the connection (before the schedule point that follows).
	OnReadDone func(c *Conn, n int)
	// ShortReads: every Read of every connection returns at most half of the bytes
	// available (segment boundaries do not coincide with message boundaries)
	ShortReads bool
	// YieldOnWrite adds an optional schedule point at the beginning of every Write
	YieldOnWrite bool
	// OnFault is called (on the goroutine performing the operation) when an
	// injected per-operation failure fires.
	OnFault func(c *Conn, kind string)
	// OnConn is called when a connection pair has been established.
	OnConn func(client, server *Conn)
	// RefuseAll makes every dial fail (network outage)
	Down map[string]bool // node -> unreachable
}

func New(s *simrt.Sched) *Net {
	n := &Net{S: s, hosts: map[string]string{}, listeners: map[string]*Listener{}, Down: map[string]bool{}}
	return n
}

func (n *Net) Install()   { curNet.Store(n) }
func (n *Net) Uninstall() { curNet.CompareAndSwap(n, nil) }

// AddHost maps names/addresses to a node.
func (n *Net) AddHost(node string, names ...string) {
	n.mu.Lock()
	defer n.mu.Unlock()
	for _, h := range names {
		n.hosts[strings.ToLower(h)] = node
	}
}

// NodeOf derives the node name from a task label ("A:op1/...", "~A:c3s#0").
func NodeOf(label string) string {
	label = strings.TrimPrefix(label, "~")
	if i := strings.IndexByte(label, ':'); i > 0 {
		return label[:i]
	}
	return ""
}

// Conns returns all connection endpoints created so far (client, server, ...).
func (n *Net) Conns() []*Conn {
	n.mu.Lock()
	defer n.mu.Unlock()
	return append([]*Conn(nil), n.conns...)
}

type addr struct{ s string }

func (a addr) Network() string { return "tcp" }
func (a addr) String() string  { return a.s }

// ---------------------------------------------------------------- listener

type Listener struct {
	net    *Net
	node   string
	port   string
	mu     sync.Mutex
	queue  []*Conn
	closed bool
	wake   chan struct{}
	group  string // process instance that listens (simrt task group)
}

func (n *Net) Listen(node, port string) (*Listener, error) {
	n.mu.Lock()
	defer n.mu.Unlock()
	key := node + ":" + port
	if l := n.listeners[key]; l != nil && !l.closed {
		return nil, &net.OpError{Op: "listen", Net: "tcp", Err: syscall.EADDRINUSE}
	}
	l := &Listener{net: n, node: node, port: port, wake: make(chan struct{}, 1), group: simrt.CurrentGroup()}
	n.listeners[key] = l
	return l, nil
}

func (l *Listener) Accept() (net.Conn, error) {
	if simrt.AdoptSoft(l.node+":lis"+l.port, l.group) {
		return nil, net.ErrClosed
	}
	for {
		l.mu.Lock()
		if l.closed {
			l.mu.Unlock()
			return nil, net.ErrClosed
		}
		if len(l.queue) > 0 {
			c := l.queue[0]
			l.queue = l.queue[1:]
			l.mu.Unlock()
			return c, nil
		}
		l.mu.Unlock()
		select {
		case <-l.wake:
		case <-l.net.S.AbortCh():
			return nil, net.ErrClosed
		}
		if simrt.YieldMustSoft("accept " + l.node) {
			return nil, net.ErrClosed
		}
	}
}

func (l *Listener) Close() error {
	l.mu.Lock()
	l.closed = true
	l.mu.Unlock()
	select {
	case l.wake <- struct{}{}:
	default:
	}
	return nil
}

func (l *Listener) Addr() net.Addr { return addr{l.node + ":" + l.port} }

// ListenAndServeTLS replaces (*http.Server).ListenAndServeTLS in instrumented
// code: the real ServeTLS runs on a simulated listener.
func ListenAndServeTLS(srv *http.Server, certFile, keyFile string) error {
	n := curNet.Load()
	if n == nil {
		return srv.ListenAndServeTLS(certFile, keyFile)
	}
	node := NodeOf(simrt.CurrentLabel())
	port := srv.Addr
	if i := strings.LastIndexByte(port, ':'); i >= 0 {
		port = port[i+1:]
	}
	l, err := n.Listen(node, port)
	if err != nil {
		return err
	}
	return srv.ServeTLS(l, certFile, keyFile)
}

// ---------------------------------------------------------------- dial

// DialContext is installed as NetDialContext in every websocket.Dialer of
// instrumented code.
func DialContext(ctx context.Context, network, address string) (net.Conn, error) {
	n := curNet.Load()
	if n == nil {
		var d net.Dialer
		return d.DialContext(ctx, network, address)
	}
	return n.Dial(ctx, NodeOf(simrt.CurrentLabel()), address)
}

var ErrRefused = &net.OpError{Op: "dial", Net: "tcp", Err: syscall.ECONNREFUSED}

type dialResult struct {
	c   *Conn
	err error
}

// Dial connects from node `from` to address host:port.
func (n *Net) Dial(ctx context.Context, from, address string) (net.Conn, error) {
	host, port, err := net.SplitHostPort(address)
	if err != nil {
		return nil, err
	}
	host = strings.ToLower(strings.Trim(host, "[]"))
	n.mu.Lock()
	to, known := n.hosts[host]
	n.mu.Unlock()
	if n.OnDial != nil {
		n.OnDial(from, to, address)
	}
	n.S.Logf("dial %s -> %s (%s)", from, to, address)
	if !known {
		return nil, &net.OpError{Op: "dial", Net: "tcp", Err: &net.DNSError{Err: "no such host", Name: host, IsNotFound: true}}
	}
	res := make(chan dialResult, 1)
	lat := time.Duration(0)
	n.mu.Lock()
	n.nextID++
	id := n.nextID
	n.mu.Unlock()
	cl := &Conn{net: n, id: id, side: "c", node: from, peerNode: to, rwake: make(chan struct{}, 1), wwake: make(chan struct{}, 1)}
	sv := &Conn{net: n, id: id, side: "s", node: to, peerNode: from, rwake: make(chan struct{}, 1), wwake: make(chan struct{}, 1)}
	cl.peer, sv.peer = sv, cl
	cl.group = simrt.CurrentGroup()
	cl.local, cl.remote = addr{from + ":0"}, addr{address}
	sv.local, sv.remote = addr{to + ":" + port}, addr{from + ":0"}
	if n.Latency != nil {
		lat = n.Latency(cl)
	}
	n.S.After(lat, fmt.Sprintf("syn c%d %s->%s", id, from, to), "", func() {
		n.mu.Lock()
		l := n.listeners[to+":"+port]
		down := n.Down[to] || n.Down[from]
		n.mu.Unlock()
		if l == nil || down {
			res <- dialResult{nil, ErrRefused}
			return
		}
		l.mu.Lock()
		if l.closed {
			l.mu.Unlock()
			res <- dialResult{nil, ErrRefused}
			return
		}
		sv.group = l.group
		l.queue = append(l.queue, sv)
		l.mu.Unlock()
		n.mu.Lock()
		n.conns = append(n.conns, cl, sv)
		n.mu.Unlock()
		if n.OnConn != nil {
			n.OnConn(cl, sv)
		}
		select {
		case l.wake <- struct{}{}:
		default:
		}
		res <- dialResult{cl, nil}
	})
	var r dialResult
	select {
	case r = <-res:
	case <-ctx.Done():
		if simrt.YieldMustSoft("dial ctx") {
			return nil, net.ErrClosed
		}
		return nil, ctx.Err()
	case <-n.S.AbortCh():
		return nil, net.ErrClosed
	}
	if simrt.YieldMustSoft("dial " + from) {
		return nil, net.ErrClosed
	}
	if r.err != nil {
		n.S.Logf("dial %s -> %s refused", from, to)
		return nil, r.err
	}
	return r.c, nil
}

// Pipe creates a connected pair without a listener (engines that do not need
// connection establishment).
func (n *Net) Pipe(clientNode, serverNode string) (*Conn, *Conn) {
	n.mu.Lock()
	n.nextID++
	id := n.nextID
	n.mu.Unlock()
	cl := &Conn{net: n, id: id, side: "c", node: clientNode, peerNode: serverNode, rwake: make(chan struct{}, 1), wwake: make(chan struct{}, 1)}
	sv := &Conn{net: n, id: id, side: "s", node: serverNode, peerNode: clientNode, rwake: make(chan struct{}, 1), wwake: make(chan struct{}, 1)}
	cl.peer, sv.peer = sv, cl
	cl.local, cl.remote = addr{clientNode + ":0"}, addr{serverNode + ":1"}
	sv.local, sv.remote = addr{serverNode + ":1"}, addr{clientNode + ":0"}
	n.mu.Lock()
	n.conns = append(n.conns, cl, sv)
	n.mu.Unlock()
	return cl, sv
}

// ---------------------------------------------------------------- conn

var (
	ErrReset    = &net.OpError{Op: "read", Net: "tcp", Err: syscall.ECONNRESET}
	ErrPipe     = &net.OpError{Op: "write", Net: "tcp", Err: syscall.EPIPE}
	ErrInjected = &net.OpError{Op: "io", Net: "tcp", Err: errors.New("injected transport failure")}
)

// Conn is one endpoint of a simulated TCP connection.
type Conn struct {
	net      *Net
	id       int
	side     string
	node     string
	peerNode string
	peer     *Conn
	local    net.Addr
	remote   net.Addr
	group    string // process instance owning this endpoint (simrt task group)

	mu      sync.Mutex
	rbuf    []byte
	rEOF    bool
	closed  bool
	broken  error
	rdl     time.Time
	wdl     time.Time
	rwake   chan struct{}
	lastDel time.Time

	NRead, NWrite int
	FailReadAt    int // 1-based Read call index that fails (0 = never)
	FailWriteAt   int
	// FailWriteOnlyAt: from this Write call on every write fails, reads keep
	// working (a send that times out because the peer does not drain, a peer
	// that shut down its receiving side): the failure of one direction only
	FailWriteOnlyAt int
	wbroken         error
	StallWrites     bool // writes block until their deadline
	SendCap         int  // >0: at most this many written-but-unread bytes (peer's receive window + local send buffer)
	unread          int  // bytes written by this endpoint that the peer application has not read yet
	wwake           chan struct{}
	Blackhole       bool // written data is silently lost
	ShortReads      bool
	CloseCalls      int
	BytesDelivered  int
	Delivered       int // chunks delivered to this endpoint
}

func (c *Conn) Name() string     { return fmt.Sprintf("c%d%s", c.id, c.side) }
func (c *Conn) ID() int          { return c.id }
func (c *Conn) Side() string     { return c.side }
func (c *Conn) Node() string     { return c.node }
func (c *Conn) PeerNode() string { return c.peerNode }
func (c *Conn) Peer() *Conn      { return c.peer }

func (c *Conn) label() string {
	if c.node != "" {
		return c.node + ":" + c.Name()
	}
	return c.Name()
}

func (c *Conn) signal() {
	select {
	case c.rwake <- struct{}{}:
	default:
	}
}

func (c *Conn) Read(p []byte) (int, error) {
	if simrt.AdoptSoft(c.label(), c.group) {
		return 0, net.ErrClosed
	}
	c.mu.Lock()
	c.NRead++
	fired := false
	if c.FailReadAt != 0 && c.NRead == c.FailReadAt && c.broken == nil {
		c.broken = ErrInjected
		c.net.S.Fault("read-fail")
		c.net.S.Logf("fault read#%d fails on %s", c.NRead, c.Name())
		fired = true
	}
	c.mu.Unlock()
	if fired {
		if f := c.net.OnFault; f != nil {
			f(c, "read-fail")
		}
	}
	for {
		c.mu.Lock()
		if c.closed {
			c.mu.Unlock()
			return 0, net.ErrClosed
		}
		if c.broken != nil {
			err := c.broken
			c.mu.Unlock()
			return 0, err
		}
		now := time.Now()
		if !c.rdl.IsZero() && !now.Before(c.rdl) {
			c.mu.Unlock()
			return 0, os.ErrDeadlineExceeded
		}
		if len(c.rbuf) > 0 {
			n := len(p)
			if n > len(c.rbuf) {
				n = len(c.rbuf)
			}
			if (c.ShortReads || c.net.ShortReads) && n > 1 {
				n = (n + 1) / 2
			}
			copy(p, c.rbuf[:n])
			c.rbuf = c.rbuf[n:]
			c.mu.Unlock()
			c.peer.credit(n)
			if f := c.net.OnReadDone; f != nil {
				f(c, n)
			}
			// the read has completed; what the caller does with the data may be
			// overtaken by other goroutines (optional schedule point)
			if simrt.YieldSoft("netread-done " + c.Name()) {
				return 0, net.ErrClosed
			}
			return n, nil
		}
		if c.rEOF {
			c.mu.Unlock()
			return 0, io.EOF
		}
		var tm *time.Timer
		var tc <-chan time.Time
		if !c.rdl.IsZero() {
			tm = time.NewTimer(c.rdl.Sub(now))
			tc = tm.C
		}
		c.mu.Unlock()
		byClock := false
		select {
		case <-c.rwake:
		case <-tc:
			byClock = true
		case <-c.net.S.AbortCh():
			if tm != nil {
				tm.Stop()
			}
			return 0, net.ErrClosed
		}
		if tm != nil {
			tm.Stop()
		}
		if !byClock {
			// Woken because another goroutine moved the read deadline into the past
			// (net/http's abortPendingRead does that to its background reader): return
			// at once, exactly as a Read that starts after the deadline change does -
			// whether this goroutine had already reached the wait or not must not
			// make a difference to the schedule.
			c.mu.Lock()
			ready := len(c.rbuf) > 0 || c.closed || c.broken != nil || c.rEOF
			expired := !c.rdl.IsZero() && !time.Now().Before(c.rdl)
			c.mu.Unlock()
			if !ready && expired {
				return 0, os.ErrDeadlineExceeded
			}
			if !ready {
				// stale wake-up token (a deadline change that does not expire this read)
				continue
			}
		}
		if simrt.YieldMustSoft("netread " + c.Name()) {
			return 0, net.ErrClosed
		}
	}
}

func (c *Conn) Write(p []byte) (int, error) {
	if simrt.AdoptSoft(c.label(), c.group) {
		return 0, net.ErrClosed
	}
	// a write takes time: other goroutines run while this one is inside it
	// (optional schedule point)
	if c.net.YieldOnWrite && simrt.YieldSoft("netwrite-begin "+c.Name()) {
		return 0, net.ErrClosed
	}
	c.mu.Lock()
	c.NWrite++
	if c.FailWriteAt != 0 && c.NWrite == c.FailWriteAt && c.broken == nil {
		c.broken = ErrInjected
		c.net.S.Fault("write-fail")
		c.net.S.Logf("fault write#%d fails on %s", c.NWrite, c.Name())
		if f := c.net.OnFault; f != nil {
			c.mu.Unlock()
			f(c, "write-fail")
			c.mu.Lock()
		}
	}
	if c.FailWriteOnlyAt != 0 && c.NWrite >= c.FailWriteOnlyAt && c.broken == nil && !c.closed {
		first := c.wbroken == nil
		c.wbroken = ErrInjected
		c.mu.Unlock()
		if first {
			c.net.S.Fault("write-only-fail")
			c.net.S.Logf("fault write#%d and later fail on %s (reads unaffected)", c.NWrite, c.Name())
			if f := c.net.OnFault; f != nil {
				f(c, "write-only-fail")
			}
		}
		return 0, ErrInjected
	}
	if c.closed {
		c.mu.Unlock()
		return 0, net.ErrClosed
	}
	if c.broken != nil {
		err := c.broken
		c.mu.Unlock()
		return 0, err
	}
	now := time.Now()
	if !c.wdl.IsZero() && !now.Before(c.wdl) {
		c.mu.Unlock()
		return 0, os.ErrDeadlineExceeded
	}
	for c.StallWrites || (c.SendCap > 0 && c.unread > 0 && c.unread+len(p) > c.SendCap) {
		// the peer does not read and the buffers are full: block until the
		// write deadline (or until the connection is closed / drained)
		var tc <-chan time.Time
		var tm *time.Timer
		if !c.wdl.IsZero() {
			tm = time.NewTimer(c.wdl.Sub(time.Now()))
			tc = tm.C
		}
		c.mu.Unlock()
		c.net.S.Fault("write-blocked-on-full-buffer")
		timedOut := false
		select {
		case <-c.wwake:
		case <-tc:
			timedOut = true
		case <-c.net.S.AbortCh():
			return 0, net.ErrClosed
		}
		if tm != nil {
			tm.Stop()
		}
		if simrt.YieldMustSoft("netwrite blocked " + c.Name()) {
			return 0, net.ErrClosed
		}
		c.mu.Lock()
		if c.closed {
			c.mu.Unlock()
			return 0, net.ErrClosed
		}
		if c.broken != nil {
			err := c.broken
			c.mu.Unlock()
			return 0, err
		}
		if timedOut || (!c.wdl.IsZero() && !time.Now().Before(c.wdl)) {
			c.mu.Unlock()
			return 0, os.ErrDeadlineExceeded
		}
	}
	now = time.Now()
	if c.rEOF {
		// the peer's FIN has arrived: a later write meets a reset
		c.mu.Unlock()
		return 0, ErrPipe
	}
	data := append([]byte(nil), p...)
	c.unread += len(p)
	black := c.Blackhole
	var lat time.Duration
	if c.net.Latency != nil {
		lat = c.net.Latency(c)
	}
	at := now.Add(lat)
	if at.Before(c.lastDel) {
		at = c.lastDel
	}
	c.lastDel = at
	c.mu.Unlock()
	if black {
		return len(p), nil
	}
	peer := c.peer
	c.net.S.After(at.Sub(now), fmt.Sprintf("deliver %s->%s %dB", c.Name(), peer.Name(), len(data)), c.Name(), func() {
		peer.mu.Lock()
		if !peer.closed && peer.broken == nil {
			peer.rbuf = append(peer.rbuf, data...)
			peer.BytesDelivered += len(data)
			peer.Delivered++
		}
		peer.mu.Unlock()
		peer.signal()
		if f := c.net.OnDeliver; f != nil {
			f(peer)
		}
	})
	return len(p), nil
}

func (c *Conn) Close() error {
	// a goroutine of un-instrumented code the simulator has not seen yet (crypto/tls
	// closes the connection from a helper goroutine when the handshake context
	// expires) becomes a task here: two of them woken by the clock at the same
	// instant must not close in an order nobody decided. Nothing changes for tasks.
	_ = simrt.AdoptSoft(c.label()+":close", c.group)
	c.mu.Lock()
	c.CloseCalls++
	if c.closed {
		c.mu.Unlock()
		return nil
	}
	c.closed = true
	c.wsignalLocked()
	black := c.Blackhole || c.broken != nil
	now := time.Now()
	at := now
	if at.Before(c.lastDel) {
		at = c.lastDel
	}
	if c.net.Latency != nil {
		if t := now.Add(c.net.Latency(c)); t.After(at) {
			at = t
		}
	}
	c.lastDel = at
	c.mu.Unlock()
	c.signal()
	c.net.S.Tracef("close %s", c.Name())
	if black {
		return nil
	}
	peer := c.peer
	c.net.S.After(at.Sub(now), fmt.Sprintf("fin %s->%s", c.Name(), peer.Name()), c.Name(), func() {
		peer.mu.Lock()
		peer.rEOF = true
		peer.mu.Unlock()
		peer.signal()
	})
	return nil
}

// credit is called by the peer endpoint when its application consumed n bytes.
func (c *Conn) credit(n int) {
	c.mu.Lock()
	c.unread -= n
	if c.unread < 0 {
		c.unread = 0
	}
	c.mu.Unlock()
	c.wsignal()
}

func (c *Conn) wsignalLocked() {
	select {
	case c.wwake <- struct{}{}:
	default:
	}
}

func (c *Conn) wsignal() {
	select {
	case c.wwake <- struct{}{}:
	default:
	}
}

// SetSendCapacity bounds the bytes this endpoint may have written without the
// peer application reading them (0 = unbounded).
func (c *Conn) SetSendCapacity(n int) {
	c.mu.Lock()
	c.SendCap = n
	c.mu.Unlock()
	c.wsignal()
	if n > 0 {
		c.net.S.Logf("fault sendcap %s %d", c.Name(), n)
	}
}

func (c *Conn) LocalAddr() net.Addr  { return c.local }
func (c *Conn) RemoteAddr() net.Addr { return c.remote }

func (c *Conn) SetDeadline(t time.Time) error {
	c.mu.Lock()
	c.rdl, c.wdl = t, t
	c.mu.Unlock()
	c.signal()
	c.wsignal()
	return nil
}

func (c *Conn) SetReadDeadline(t time.Time) error {
	c.mu.Lock()
	c.rdl = t
	c.mu.Unlock()
	c.signal()
	return nil
}

func (c *Conn) SetWriteDeadline(t time.Time) error {
	c.mu.Lock()
	c.wdl = t
	c.mu.Unlock()
	c.wsignal()
	return nil
}

// Closed reports whether Close was called on this endpoint.
func (c *Conn) Closed() bool {
	c.mu.Lock()
	defer c.mu.Unlock()
	return c.closed
}

// Counts returns the number of Read, Write and Close calls so far.
func (c *Conn) Counts() (reads, writes, closes int) {
	c.mu.Lock()
	defer c.mu.Unlock()
	return c.NRead, c.NWrite, c.CloseCalls
}

// FailAt arms the per-operation failures (1-based call indices, 0 = leave as is).
func (c *Conn) FailAt(read, write, writeOnly int) {
	c.mu.Lock()
	defer c.mu.Unlock()
	if read != 0 {
		c.FailReadAt = read
	}
	if write != 0 {
		c.FailWriteAt = write
	}
	if writeOnly != 0 {
		c.FailWriteOnlyAt = writeOnly
	}
}

// FailNextWrite makes the next Write call fail.
func (c *Conn) FailNextWrite() {
	c.mu.Lock()
	defer c.mu.Unlock()
	c.FailWriteAt = c.NWrite + 1
}

// WriteBroken reports an injected failure of the sending direction only.
func (c *Conn) WriteBroken() bool {
	c.mu.Lock()
	defer c.mu.Unlock()
	return c.wbroken != nil
}

// Broken reports an injected reset / failure.
func (c *Conn) Broken() bool {
	c.mu.Lock()
	defer c.mu.Unlock()
	return c.broken != nil
}

// PeerClosedSeen reports whether the peer's FIN has been delivered.
func (c *Conn) PeerClosedSeen() bool {
	c.mu.Lock()
	defer c.mu.Unlock()
	return c.rEOF
}

// ---------------------------------------------------------------- faults
// (called from the scheduler goroutine or from harness tasks)

// Cut resets the connection in both directions; in-flight data is lost.
func (c *Conn) Cut() {
	for _, e := range []*Conn{c, c.peer} {
		e.mu.Lock()
		if e.broken == nil {
			e.broken = ErrReset
		}
		e.rbuf = nil
		e.mu.Unlock()
		e.signal()
		e.wsignal()
	}
	c.net.S.Fault("cut")
	c.net.S.Logf("fault cut c%d", c.id)
}

// BreakLocal makes only this endpoint fail from now on (its peer sees nothing).
func (c *Conn) BreakLocal() {
	c.mu.Lock()
	if c.broken == nil {
		c.broken = ErrInjected
	}
	c.mu.Unlock()
	c.signal()
	c.wsignal()
	c.net.S.Fault("break-local")
	c.net.S.Logf("fault break %s", c.Name())
}

// SetBlackhole silently drops everything this endpoint writes from now on.
func (c *Conn) SetBlackhole(on bool) {
	c.mu.Lock()
	c.Blackhole = on
	c.mu.Unlock()
	if on {
		c.net.S.Fault("blackhole")
		c.net.S.Logf("fault blackhole %s", c.Name())
	}
}

// SetStall makes writes on this endpoint block until their deadline.
func (c *Conn) SetStall(on bool) {
	c.mu.Lock()
	c.StallWrites = on
	c.mu.Unlock()
	if on {
		c.net.S.Fault("transport-stall")
		c.net.S.Logf("fault stall %s", c.Name())
	} else {
		// the transport drains again: a blocked writer goes on
		c.wsignal()
	}
}

// Group returns the process instance that owns this endpoint.
func (c *Conn) Group() string { return c.group }

// CrashGroup models the death of process instance g at the network level: its
// listeners disappear; with rst its connections are reset (the operating
// system closes the sockets of a killed process), without it the machine just
// goes silent (power loss): whatever the peers send is lost and nothing comes
// back. The tasks themselves are stopped with simrt.Sched.Freeze.
func (n *Net) CrashGroup(g string, rst bool) {
	n.mu.Lock()
	var ls []*Listener
	for _, l := range n.listeners {
		if l.group == g {
			ls = append(ls, l)
		}
	}
	cs := append([]*Conn(nil), n.conns...)
	n.mu.Unlock()
	for _, l := range ls {
		l.Close()
	}
	for _, c := range cs {
		if c.group != g {
			continue
		}
		if rst {
			c.Cut()
		} else {
			c.peer.SetBlackhole(true)
		}
	}
	n.S.Fault("crash")
	n.S.Logf("fault crash group %s rst=%v", g, rst)
}

// CloseListeners closes every listener of a node (crash).
func (n *Net) CloseListeners(node string) {
	n.mu.Lock()
	var ls []*Listener
	for _, l := range n.listeners {
		if l.node == node {
			ls = append(ls, l)
		}
	}
	n.mu.Unlock()
	for _, l := range ls {
		l.Close()
	}
}

// CloseAll closes every endpoint and listener (tear-down).
func (n *Net) CloseAll() {
	n.mu.Lock()
	cs := append([]*Conn(nil), n.conns...)
	var ls []*Listener
	for _, l := range n.listeners {
		ls = append(ls, l)
	}
	n.mu.Unlock()
	for _, l := range ls {
		l.Close()
	}
	for _, c := range cs {
		c.mu.Lock()
		c.closed = true
		c.mu.Unlock()
		c.signal()
		c.wsignal()
	}
}
