//go:build verif

package harness

import (
	"fmt"
	"strings"
	"time"

	"github.com/enbility/ship-go/model"
	"github.com/enbility/ship-go/ship"

	"verif/simrt"
)

func init() {
	register(&Scenario{Prop: "C14", Horizon: 6 * time.Hour, Steps: 150000, Setup: setupC14})
}

func setupC14(x *Ctx) {
	if x.Chance("c14-flow", 0.35) {
		c14Flow(x)
		return
	}
	c14ArmStop(x)
}

// ---- (a) arm / stop / re-arm sequences on connections parked in a state
// whose timeout is observable (client waiting for the init reply: a timeout
// ends the handshake with an error report)

type timerOp struct {
	Kind string        `json:"op"`
	D    time.Duration `json:"d"`
}

var armDurations = []time.Duration{time.Millisecond, time.Second, 5 * time.Second, 10 * time.Second, 60 * time.Second}
var gapDurations = []time.Duration{0, 0, time.Millisecond, 2 * time.Second, 7 * time.Second, 30 * time.Second}

func c14ArmStop(x *Ctx) {
	x.SigAdd("mode=armstop")
	nConn := 1 + x.Biased("conns", 12, 0.3)
	if x.Chance("many-conns", 0.1) {
		nConn = 50
	}
	type plan struct {
		ops []timerOp
	}
	plans := make([]plan, nConn)
	for i := range plans {
		n := 1 + x.Choose("ops", 8)
		if x.Feat(FeatTimerTies) && x.Chance("tie-plan", 0.35) {
			// the running timer expires at the very instant of the next operation: the
			// timer goroutine and the operation that replaces / stops it run in an
			// order the scheduler picks; what follows shows whether the successor can
			// still be stopped and replaced
			d := armDurations[x.Choose("tie-d", 3)] // 1 ms, 1 s, 5 s
			if x.Chance("tie-on-initial-timer", 0.3) {
				plans[i].ops = append(plans[i].ops, timerOp{"sleep", 10 * time.Second})
			} else {
				plans[i].ops = append(plans[i].ops, timerOp{"arm", d}, timerOp{"sleep", d})
			}
			d2 := armDurations[1+x.Choose("tie-d2", 4)]
			plans[i].ops = append(plans[i].ops, timerOp{"arm", d2})
			switch x.Choose("tie-then", 3) {
			case 0:
				plans[i].ops = append(plans[i].ops, timerOp{"stop", 0}, timerOp{"arm", 60 * time.Second})
			case 1:
				plans[i].ops = append(plans[i].ops, timerOp{"arm", 60 * time.Second})
			default:
				plans[i].ops = append(plans[i].ops, timerOp{"sleep", gapDurations[x.Choose("gap-d", len(gapDurations))]}, timerOp{"arm", 60 * time.Second})
			}
		}
		for j := 0; j < n; j++ {
			switch x.Choose("op", 3) {
			case 0:
				plans[i].ops = append(plans[i].ops, timerOp{"arm", armDurations[x.Choose("arm-d", len(armDurations))]})
			case 1:
				plans[i].ops = append(plans[i].ops, timerOp{"stop", 0})
			case 2:
				plans[i].ops = append(plans[i].ops, timerOp{"sleep", gapDurations[x.Choose("gap-d", len(gapDurations))]})
			}
		}
	}
	done := make(chan struct{}, nConn)
	for i := 0; i < nConn; i++ {
		i := i
		name := fmt.Sprintf("K%d", i)
		x.Go(name+":driver", func() {
			prov := &stubProvider{x: x, name: name, paired: true, allowWaiting: true}
			tw := &stubWriter{x: x, name: name}
			conn := ship.NewConnectionHandler(prov, tw, ship.ShipRoleClient, "LOCALID", "peerski", "")
			x.Ev("t-arm-begin", name, "", int(10*time.Second/time.Millisecond))
			conn.Run() // sends init, arms the 10 s timer, waits in client-wait
			x.Ev("t-arm", name, "", int(10*time.Second/time.Millisecond))
			for _, op := range plans[i].ops {
				if tw.isClosed() {
					break
				}
				switch op.Kind {
				case "arm":
					x.Ev("t-arm-begin", name, "", int(op.D/time.Millisecond))
					conn.VerifArmTimer(op.D)
					x.Ev("t-arm", name, "", int(op.D/time.Millisecond))
				case "stop":
					x.Ev("t-stop-begin", name, "", 0)
					conn.VerifStopTimer()
					x.Ev("t-stop", name, "", 0)
				case "sleep":
					if op.D > 0 {
						simrt.Sleep(op.D)
					}
				}
			}
			done <- struct{}{}
		})
	}
	x.Go("X:end", func() {
		for i := 0; i < nConn; i++ {
			simrt.Recv("done", done)
		}
		simrt.Sleep(3 * time.Minute)
		x.S.Stop("done")
	})
	x.OnFinal(func() {
		evs := x.Events()
		nontrivial := false
		for i := 0; i < nConn; i++ {
			name := fmt.Sprintf("K%d", i)
			// A goroutine can be descheduled anywhere (stalled-goroutine fault), so every
			// operation is an interval [begin, end]: a timer armed by an operation that
			// began at b with duration d expires no earlier than b+d; it is certainly dead
			// before its expiry only if the stop / re-arm that ended it had *returned*
			// before b+d.
			// ... and it expires no later than e+d if the arming operation had returned at e; a
			// delivery may lag behind the expiry by scheduling delays (stall fault: <= 50 ms
			// a time), not by more than lateSlack.
			const lateSlack = 500 * time.Millisecond
			type tm struct{ begin, minExp, maxExp, dead time.Duration } // dead < 0: never stopped or replaced
			var timers []tm
			fired := 0
			kill := func(t time.Duration) {
				if n := len(timers); n > 0 && timers[n-1].dead < 0 {
					timers[n-1].dead = t
				}
			}
			for _, e := range evs {
				if e.A != name {
					continue
				}
				switch e.Kind {
				case "t-arm-begin":
					timers = append(timers, tm{e.T, e.T + time.Duration(e.N)*time.Millisecond, -1, -1})
				case "t-arm":
					if n := len(timers); n >= 1 && timers[n-1].maxExp < 0 {
						timers[n-1].maxExp = e.T + time.Duration(e.N)*time.Millisecond
					}
					// the re-arm has returned: every older timer is replaced from now on
					if n := len(timers); n >= 2 {
						for j := 0; j < n-1; j++ {
							if timers[j].dead < 0 {
								timers[j].dead = e.T
							}
						}
					}
				case "t-stop":
					kill(e.T)
					nontrivial = true
				case "state":
					if e.N == 39 && strings.Contains(e.B, "timeout") {
						fired++
						if fired > 1 {
							// the second report of the same error is the explicit error notification
							continue
						}
						explained := false
						for _, t := range timers {
							if e.T >= t.minExp && (t.maxExp < 0 || e.T <= t.maxExp+lateSlack) && (t.dead < 0 || t.dead >= t.minExp) {
								// armed, its duration has passed, and it was not stopped or
								// replaced before its (earliest possible) expiry
								explained = true
								if t.dead >= 0 {
									x.Probe("stop-at-or-after-expiry")
								}
							}
						}
						if explained {
							continue
						}
						cur := timers[len(timers)-1]
						if cur.dead >= 0 {
							x.Violate("stopped-timer-fired", "", fmt.Sprintf("%s: a handshake timeout was delivered at %v although the timer (armed at %v, expiring at %v) had been stopped at %v (ops %v)", name, e.T, cur.begin, cur.minExp, cur.dead, plans[i].ops))
							return
						}
						x.Violate("replaced-timer-fired", "", fmt.Sprintf("%s: a handshake timeout was delivered at %v but the most recently armed timer (armed at %v) expires at %v and every older one had been replaced before its expiry (ops %v)", name, e.T, cur.begin, cur.minExp, plans[i].ops))
						return
					}
				}
			}
		}
		if nontrivial {
			x.NonTrivial()
		}
		x.SigAdd(fmt.Sprintf("conns=%d", nConn))
		x.SetSample(map[string]any{"mode": "arm/stop sequences", "connections": nConn, "ops_of_first": plans[0].ops})
	})
}

// ---- (b) a pending-trust flow with a peer that answers every prolongation
// request in time: no timeout may ever tear the connection down

func c14Flow(x *Ctx) {
	x.SigAdd("mode=flow")
	o := ship1Opts{
		dataRate: 0.08, maxEvents: 24,
		userPlans:     []string{"approve", "approve", "none"},
		helloModes:    []string{"ready"},
		trustModes:    []string{"none", "paired", "auto"},
		storedIDs:     []string{"", "PEERID"},
		presented:     []string{fAccess("PEERID")},
		roles:         []string{"server", "server", "client"},
		noPeerHelloEv: true,
		timelyTail:    true,
	}
	// a peer that is slow once: in a phase with a timer of its own that timer may end the
	// handshake; a timer armed in an earlier phase must not
	slow := x.Feat(FeatMoreInputs) && x.Chance("slow-peer-once", 0.5)
	if slow {
		o.slowK = 1 + x.Choose("slow-k", 12)
		o.slowD = []time.Duration{11 * time.Second, 35 * time.Second, 70 * time.Second, 130 * time.Second}[x.Choose("slow-d", 4)]
		x.SigAdd(fmt.Sprintf("slow=%d/%v", o.slowK, o.slowD))
	}
	var s *ship1
	curPhase, armPhase, probed := 0, -1, false
	armEpoch, armTask := int64(-1), ""
	hook := func(name string, args []any) {
		if s == nil || len(args) == 0 || args[0] != any(s.conn) {
			return
		}
		switch name {
		case "ship.ShipConnection.setState":
			if st, ok := args[1].(model.ShipMessageExchangeState); ok {
				if ph := phaseOf(int(st)); ph >= 0 {
					curPhase = ph
					// a handler that arms the timer and then enters the next phase (access
					// methods) has armed that phase's timer
					if t, e := s.epochOf(); t == armTask && e == armEpoch && ph > armPhase {
						armPhase = ph
					}
				}
			}
		case "ship.ShipConnection.setHandshakeTimer":
			probed = true
			armPhase = curPhase
			armTask, armEpoch = s.epochOf()
		case "ship.ShipConnection.handleState":
			if to, ok := args[1].(bool); ok && to {
				s.bumpEpoch()
				x.Ev("t-timeout", "U", fmt.Sprintf("armed-in-phase-%d", armPhase), curPhase)
				if armPhase >= 0 && armPhase < curPhase {
					x.Violate("timeout-from-earlier-phase", fmt.Sprintf("phase%d>%d", armPhase, curPhase), fmt.Sprintf("%s role: a timeout was delivered in phase %d by a timer armed in phase %d (0 init, 1 hello, 2 protocol, 3 pin, 4 access); states %v", s.role, curPhase, armPhase, stateSeq(x, "U")))
				}
			}
		}
	}
	simrt.ProbeHook.Store(&hook)
	s = newShip1(x, o)
	x.OnFinal(func() {
		if !probed {
			// every handshake arms a timer with its first step
			x.HarnessError("probe ship.ShipConnection.setHandshakeTimer never fired: the instrumentation does not match this tree")
			return
		}
		completed := false
		pending := false
		for _, e := range x.Events() {
			if e.A != "U" {
				continue
			}
			switch e.Kind {
			case "state":
				if e.N == 11 {
					pending = true
				}
				if e.N == 38 {
					completed = true
				}
				// a teardown is charged to a timer when the terminal state is reported
				// from a goroutine the connection spawned itself (its timer) or names a timeout
				byTimer := strings.Contains(e.B, "timeout") || strings.Contains(e.Task, "/ship/")
				if isTerminalState(e.N) && byTimer && !slow {
					x.Violate("timely-connection-torn-down", fmt.Sprintf("state%d", e.N), fmt.Sprintf("%s role, trust=%s, user=%s: the peer answered every message and prolongation request in time, yet a timer goroutine (%s) reported state %d (%s) at %v; states %v", s.role, s.trustMode, s.userPlan, e.Task, e.N, e.B, e.T, stateSeq(x, "U")))
					return
				}
				if isTerminalState(e.N) {
					x.Probe("torn-down-not-by-timer")
				}
			}
		}
		if pending {
			x.NonTrivial()
			x.Probe("prolongation-flow")
		}
		if completed {
			x.Probe("completed")
		}
		x.SigAdd(fmt.Sprintf("pending=%v completed=%v", pending, completed))
		x.SetSample(map[string]any{"mode": "timely flow", "role": s.role, "trust": s.trustMode, "user": s.userPlan, "states": stateSeq(x, "U")})
	})
}
