//go:build verif

package harness

import (
	"fmt"
	"strings"
	"time"

	"github.com/enbility/ship-go/api"

	"verif/simnet"
	"verif/simrt"
)

// c12ShipPair: C12 with the real SHIP layer as the websocket connection's
// reader. Two completed endpoints; the sending direction of A stalls for good
// (the write pump sits in a transport write until its 10 s deadline), A's
// application hands over several datagrams (the queue fills, a writer waits),
// B announces a close at a drawn moment (A's message handler then writes the
// confirmation - a writer that holds the handshake lock), finally the stalled
// transport write fails. Every write call must return, the end of the
// connection must be reported and no goroutine of ws / ship may be left
// blocked.
func c12ShipPair(x *Ctx) {
	// the same scenario serves C13 (loss reported, pumps and socket released) with its own clause names
	c13 := x.Spec.Prop == "C13"
	x.SigAdd("engine=ship-pair")
	x.Net.Latency = func(*simnet.Conn) time.Duration { return time.Millisecond }
	s := newShip2(x, ship2Opts{})
	s.B.prov.paired = true
	nData := 2 + x.Choose("pair-datagrams", 4)
	peerClose := PickB(x, "pair-peer-close", 0.3, []string{"announce", "none", "cut-by-peer"})
	closeDelay := []time.Duration{0, 100 * time.Millisecond, time.Second, 5 * time.Second, 9 * time.Second, 11 * time.Second}[x.Choose("pair-close-delay", 6)]
	x.SigAdd(fmt.Sprintf("n=%d close=%s@%v", nData, peerClose, closeDelay))
	writerCh := make(chan api.ShipConnectionDataWriterInterface, 1)
	s.A.prov.onSetup = func(w api.ShipConnectionDataWriterInterface) { writerCh <- w }
	x.Go("X:script", func() {
		s.waitReady()
		var w api.ShipConnectionDataWriterInterface
		select {
		case w = <-writerCh:
		default:
			w = simrt.Recv("writer", writerCh)
		}
		// both sides completed?
		for i := 0; i < 600; i++ {
			a, b := s.summarise("A"), s.summarise("B")
			if a.completed && b.completed {
				break
			}
			simrt.Sleep(100 * time.Millisecond)
		}
		if a, b := s.summarise("A"), s.summarise("B"); !a.completed || !b.completed {
			x.S.Stop("done") // not the situation this scenario is about
			return
		}
		x.NonTrivial()
		x.Ev("stall", "A", "", 0)
		s.A.nc.SetStall(true)
		x.Go("A:writer", func() {
			for i := 0; i < nData; i++ {
				x.Ev("pw-begin", "A", "", 7000+i)
				w.WriteShipMessageWithPayload(spinePayload(7000 + i))
				x.Ev("pw-end", "A", "", 7000+i)
			}
		})
		simrt.Sleep(closeDelay)
		switch peerClose {
		case "announce":
			x.Go("B:op", func() { s.B.conn.CloseConnection(true, 0, "bye") })
		case "cut-by-peer":
			_ = s.B.nc.Close()
		}
		simrt.Sleep(150 * time.Second)
		begun, ended := 0, 0
		closedA := 0
		for _, e := range x.Events() {
			switch {
			case e.Kind == "pw-begin":
				begun++
			case e.Kind == "pw-end":
				ended++
			case e.Kind == "closed" && e.A == "A":
				closedA++
			}
		}
		var stuck []string
		for _, b := range x.S.Blocked() {
			if strings.Contains(b, "ws/") || strings.Contains(b, "ship/") {
				stuck = append(stuck, b)
			}
		}
		if c13 {
			nc, _, closes := 0, 0, 0
			_, _, closes = s.A.nc.Counts()
			_ = nc
			if closedA == 0 {
				x.Violate("loss-not-reported", "ship-pair", fmt.Sprintf("datagrams=%d, peer close=%s after %v: the stalled transport write failed after 10 s but the SHIP layer was never told; blocked: %v", nData, peerClose, closeDelay, stuck))
				return
			}
			if closes == 0 {
				x.Violate("socket-not-closed", "ship-pair", fmt.Sprintf("datagrams=%d, peer close=%s after %v: Close() was never called on A's network connection; blocked: %v", nData, peerClose, closeDelay, stuck))
				return
			}
			if len(stuck) > 0 {
				x.Violate("pump-not-terminated", "ship-pair", fmt.Sprintf("datagrams=%d, peer close=%s after %v: %v", nData, peerClose, closeDelay, stuck))
				return
			}
			x.Probe("ship-pair-stalled-and-ended")
			x.S.Stop("done")
			return
		}
		if ended < begun {
			x.Violate("write-never-returns", "ship-pair", fmt.Sprintf("datagrams=%d, peer close=%s after %v: 150 simulated s after the transport stalled, %d of %d WriteShipMessageWithPayload calls have not returned; blocked: %v", nData, peerClose, closeDelay, begun-ended, begun, stuck))
			return
		}
		if closedA == 0 {
			x.Violate("end-not-reported-after-write-failure", "ship-pair", fmt.Sprintf("datagrams=%d, peer close=%s after %v: the stalled transport write must have failed after 10 s, but the end of A's connection was never reported; blocked: %v", nData, peerClose, closeDelay, stuck))
			return
		}
		if len(stuck) > 0 {
			x.Violate("goroutine-left-blocked", "ship-pair", fmt.Sprintf("datagrams=%d, peer close=%s after %v: %v", nData, peerClose, closeDelay, stuck))
			return
		}
		x.Probe("ship-pair-stalled-and-ended")
		x.SetSample(map[string]any{"engine": "ship-pair", "datagrams": nData, "peer_close": peerClose, "close_delay": closeDelay.String()})
		x.S.Stop("done")
	})
}
