//go:build verif

package harness

import (
	"fmt"
	"strings"
	"time"

	"github.com/enbility/go-avahi"
	"github.com/enbility/ship-go/api"
	"github.com/enbility/ship-go/mdns"

	"verif/simrt"
)

func init() {
	register(&Scenario{Prop: "C19", Horizon: 2 * time.Hour, Steps: 200000, PanicIsViolation: true, Setup: setupC19})
}

var c19Events = []string{"disconnect", "disconnect", "unavailable", "available", "autoaccept-flip", "unannounce", "announce", "service-add", "service-remove", "resolve-toggle", "sleep", "sleep"}

func setupC19(x *Ctx) {
	d := newFakeDaemon(x)
	mdns.VerifAvahiServerFactory = func() avahi.ServerInterface { return d.newServer() }
	n := 1 + x.Choose("events", 20)
	var evs []string
	var gaps []time.Duration
	for i := 0; i < n; i++ {
		evs = append(evs, c19Events[x.Choose("event", len(c19Events))])
		gaps = append(gaps, []time.Duration{0, 0, 100 * time.Millisecond, 900 * time.Millisecond, 1100 * time.Millisecond, 3 * time.Second}[x.Choose("gap", 6)])
	}
	withShutdown := x.Chance("shutdown", 0.45)
	shutdownAt := x.Choose("shutdown-at", n+1)
	secondShutdown := x.Chance("second-shutdown", 0.3)
	x.SigAdd(fmt.Sprintf("ev=%v shut=%v@%d", evs, withShutdown, shutdownAt))
	x.SetSample(map[string]any{"daemon_events": evs, "gaps": fmt.Sprint(gaps), "shutdown": withShutdown, "shutdown_after_event": shutdownAt})

	// reference model: what the application last asked for (calls made by the
	// API task; the provider's own re-announce after a reconnect does not count)
	announced := false
	wantTxt := ""
	hook := func(name string, args []any) {
		if !strings.HasPrefix(simrt.CurrentLabel(), "M:api") || strings.Contains(simrt.CurrentLabel(), "/") {
			return
		}
		switch name {
		case "mdns.AvahiProvider.Announce":
			if txt, ok := args[3].([]string); ok {
				announced = true
				wantTxt = strings.Join(txt, ";")
			}
		case "mdns.AvahiProvider.Unannounce":
			announced = false
		}
	}
	simrt.ProbeHook.Store(&hook)
	autoAccept := false
	shut := false
	var shutSeq int
	svcOn := map[string]bool{}
	nextSvc := 0

	x.Go("M:api", func() {
		m := mdns.NewMDNS("ownski", "brand", "model", "type", "serial", []api.DeviceCategoryType{1}, "ID", "svc", 4711, nil, mdns.MdnsProviderSelectionAvahiOnly)
		rep := &recReport{x}
		if err := m.Start(rep); err != nil {
			x.HarnessError("mdns start: " + err.Error())
			return
		}
		doShutdown := func(tag string) {
			x.Ev("api-shutdown", tag, "", 0)
			t0 := x.S.Now()
			m.Shutdown()
			x.Ev("api-shutdown-ret", tag, "", 0)
			if x.S.Now()-t0 > 5*time.Second {
				x.Violate("shutdown-too-slow", "", fmt.Sprintf("Shutdown took %v of simulated time", x.S.Now()-t0))
			}
			if !shut {
				shut = true
				for _, e := range x.Events() {
					shutSeq = e.Seq
				}
			}
		}
		for i, ev := range evs {
			if withShutdown && i == shutdownAt {
				doShutdown("first")
				if secondShutdown {
					doShutdown("second")
				}
			}
			if gaps[i] > 0 {
				simrt.Sleep(gaps[i])
			}
			x.Ev("c19-event", ev, "", i)
			switch ev {
			case "disconnect":
				d.disconnect()
			case "unavailable":
				d.mu.Lock()
				d.failNext = 1 + x.Choose("fail-attempts", 3)
				d.mu.Unlock()
				d.disconnect()
			case "available":
				d.mu.Lock()
				d.failNext = 0
				d.mu.Unlock()
			case "autoaccept-flip":
				if !shut {
					autoAccept = !autoAccept
					m.SetAutoAccept(autoAccept)
				}
			case "unannounce":
				if !shut {
					m.UnannounceMdnsEntry()
				}
			case "announce":
				if !shut {
					_ = m.AnnounceMdnsEntry()
				}
			case "service-add":
				name := fmt.Sprintf("peer%d", nextSvc%3)
				nextSvc++
				svcOn[name] = true
				d.publish(avahi.Service{Interface: 1, Protocol: 0, Name: name, Type: "_ship._tcp", Domain: "local", Host: name + ".local", Address: "10.1.0." + fmt.Sprint(1+nextSvc%3), Port: 4712,
					Txt: [][]byte{[]byte("txtvers=1"), []byte("id=" + name), []byte("path=/ship/"), []byte("ski=ski" + name), []byte("register=false")}}, false)
			case "service-remove":
				name := fmt.Sprintf("peer%d", x.Choose("rm", 3))
				delete(svcOn, name)
				d.publish(avahi.Service{Interface: 1, Protocol: 0, Name: name, Type: "_ship._tcp", Domain: "local"}, true)
			case "resolve-toggle":
				d.mu.Lock()
				d.resolveOK = !d.resolveOK
				d.mu.Unlock()
			case "sleep":
				simrt.Sleep(2 * time.Second)
			}
		}
		if withShutdown && shutdownAt >= len(evs) {
			doShutdown("first")
			if secondShutdown {
				doShutdown("second")
			}
		}
		// the daemon is reachable again; everything settles
		d.mu.Lock()
		d.failNext = 0
		d.available = true
		d.resolveOK = true
		d.mu.Unlock()
		simrt.Sleep(12 * time.Second)

		// ---- oracle
		d.mu.Lock()
		srvs := append([]*fakeAvahiServer(nil), d.servers...)
		d.mu.Unlock()
		browsers, committed := 0, []string{}
		for _, s := range srvs {
			browsers += s.liveBrowsers()
			committed = append(committed, s.committedTxt()...)
		}
		if shut {
			for _, e := range x.Events() {
				if e.Seq > shutSeq && (e.Kind == "av-setup" || e.Kind == "av-start" || e.Kind == "av-entrygroup-new" || e.Kind == "av-browser-new" || e.Kind == "av-commit") {
					// the calls made by Shutdown itself come before its return
					x.Violate("restarted-after-shutdown", e.Kind, fmt.Sprintf("after the manual shutdown had returned the provider called %s on the Avahi daemon (events %v, shutdown before event %d)", e.Kind, evs, shutdownAt))
					return
				}
			}
			if browsers > 0 || len(committed) > 0 {
				x.Violate("active-after-shutdown", "", fmt.Sprintf("after manual shutdown: %d live browser(s), committed entry groups %v", browsers, committed))
				return
			}
		} else {
			if browsers != 1 {
				x.Violate("not-browsing-after-reconnect", fmt.Sprintf("browsers=%d", browsers), fmt.Sprintf("daemon reachable and quiet for 12 s, not shut down: %d live service browser(s) instead of 1 (events %v)", browsers, evs))
				return
			}
			if announced {
				if len(committed) != 1 {
					x.Violate("announcement-lost", fmt.Sprintf("groups=%d", len(committed)), fmt.Sprintf("an announcement is active but the daemon holds %d committed entry group(s) (events %v)", len(committed), evs))
					return
				}
				if committed[0] != wantTxt {
					x.Violate("stale-txt-announced", "", fmt.Sprintf("the most recently requested TXT is %q but the daemon announces %q (events %v)", wantTxt, committed[0], evs))
					return
				}
			} else if len(committed) != 0 {
				x.Violate("announced-although-unannounced", "", fmt.Sprintf("no announcement is active but the daemon holds committed entry group(s) %v (events %v)", committed, evs))
				return
			}
			// a service resolved afterwards is reported again
			before := len(x.Events())
			d.publish(avahi.Service{Interface: 1, Protocol: 0, Name: "late", Type: "_ship._tcp", Domain: "local", Host: "late.local", Address: "10.1.0.9", Port: 4712,
				Txt: [][]byte{[]byte("txtvers=1"), []byte("id=late"), []byte("path=/ship/"), []byte("ski=skilate"), []byte("register=false")}}, false)
			simrt.Sleep(3 * time.Second)
			seen := false
			for _, e := range x.Events()[before:] {
				if e.Kind == "mdns-report" && strings.Contains(e.A, "skilate") {
					seen = true
				}
			}
			if !seen {
				x.Violate("service-not-reported-after-reconnect", "", fmt.Sprintf("a service resolved after the reconnect never reached the report callback (events %v)", evs))
				return
			}
		}
		x.NonTrivial()
		x.S.Stop("done")
	})
}
