//go:build verif

package harness

import (
	"fmt"
	"time"

	"github.com/enbility/ship-go/model"

	"verif/simnet"
	"verif/simrt"
)

// c01Hub: a real hub A that never grants trust to B (auto-accept stays off,
// B is never registered); B is a real hub that has registered A and keeps
// dialling it. A's user is busy with *other* SKIs. Over public callbacks only:
// A never sets up B, never receives a payload from B and never reports
// trusted / completed for B.
func c01Hub(x *Ctx) {
	x.SigAdd("engine=hub")
	x.S.LimitSteps(25000)
	r := newHubRig(x)
	a, b, c := r.addNode("A"), r.addNode("B"), r.addNode("C")
	lat := []time.Duration{0, time.Millisecond, 40 * time.Millisecond, 400 * time.Millisecond}[x.Choose("latency", 4)]
	x.Net.Latency = func(*simnet.Conn) time.Duration { return lat }
	waiting := x.Chance("allow-waiting", 0.7)
	// variant: B was a stored pairing (registered before Start) that the user
	// cancels / unregisters before any connection exists - trust withdrawn
	withdrawModes := []string{"", "cancel", "unregister"}
	if x.Feat(FeatWithdrawInDial) {
		// ... or while A's own dial to the visible B is in flight / its handshake runs
		withdrawModes = append(withdrawModes, "cancel-during-dial", "unregister-during-dial")
	}
	p0 := 0.5
	if x.Feat(FeatMoreInputs) {
		// the withdrawals that race with a connection are where the trust decision and the
		// user's operation meet: more of them
		withdrawModes = append(withdrawModes, "cancel-during-dial", "unregister-during-dial")
		p0 = 0.35
	}
	storedThenWithdrawn := PickB(x, "stored-then-withdrawn", p0, withdrawModes)
	duringDial := storedThenWithdrawn == "cancel-during-dial" || storedThenWithdrawn == "unregister-during-dial"
	withdrawGap := time.Duration(0)
	if duringDial {
		withdrawGap = []time.Duration{0, time.Millisecond, lat, 2 * lat, 3 * lat, 5 * lat, 9 * lat, 3 * time.Second}[x.Choose("withdraw-gap", 8)]
	}
	withdrawnSeq := 0
	withdrawnAt := time.Duration(0)
	nOps := x.Choose("ops", 8)
	var ops []string
	for i := 0; i < nOps; i++ {
		ops = append(ops, []string{"register-C", "unregister-C", "cancel-C", "cancel-B", "disconnect-B", "unregister-B", "detail-B", "disconnect-C"}[x.Choose("op", 8)])
	}
	x.SigAdd(fmt.Sprintf("lat=%v waiting=%v ops=%v withdrawn=%s", lat, waiting, ops, storedThenWithdrawn))
	x.SetSample(map[string]any{"engine": "hub", "latency": lat.String(), "waiting_allowed": waiting, "user_ops_on_A": ops, "stored_pairing_withdrawn_by": storedThenWithdrawn})
	aStarted := make(chan struct{})
	x.Go("B:start", func() {
		b.create()
		simrt.Recv("a", a.ready)
		if storedThenWithdrawn != "" && !duringDial {
			// B only appears after A's user has withdrawn the trust
			simrt.Recv("a-started", aStarted)
			simrt.Sleep(time.Second)
		}
		b.hub.RegisterRemoteSKI(a.ski)
		b.hub.Start()
		// B's application writes as soon as it thinks it is connected
	})
	x.Go("C:start", func() {
		c.create()
		simrt.Recv("a", a.ready)
		c.hub.RegisterRemoteSKI(a.ski)
		c.hub.Start()
	})
	// did A complete its connection with B before the user withdrew the pairing?
	completedBefore := func() bool {
		if !duringDial {
			return false
		}
		for _, e := range x.Events() {
			if e.Kind == "app-setup" && e.A == "A" && e.B == b.ski && e.Seq < withdrawnSeq {
				return true
			}
		}
		return false
	}
	x.Go("A:user", func() {
		a.create()
		a.app.mu.Lock()
		a.app.allowWaiting = waiting
		a.app.mu.Unlock()
		simrt.Recv("b", b.ready)
		simrt.Recv("c", c.ready)
		if storedThenWithdrawn != "" {
			a.hub.RegisterRemoteSKI(b.ski)
		}
		a.hub.Start()
		if duringDial && withdrawGap > 0 {
			simrt.Sleep(withdrawGap)
		} else if duringDial && x.Feat(FeatMoreInputs) {
			// no gap: as soon as A's own dial to B is on its way (at most 5 s)
			for i := 0; i < 5000 && !dialSeen(x, "A", "B"); i++ {
				simrt.Sleep(time.Millisecond)
			}
		}
		switch storedThenWithdrawn {
		case "cancel", "cancel-during-dial":
			a.hub.CancelPairingWithSKI(r.spellP(b.ski, 0.5))
		case "unregister", "unregister-during-dial":
			a.hub.UnregisterRemoteSKI(r.spellP(b.ski, 0.5))
		}
		if duringDial {
			withdrawnSeq = x.Ev("trust-withdrawn", storedThenWithdrawn, "", 0)
			withdrawnAt = x.S.Now()
		}
		close(aStarted)
		for _, op := range ops {
			simrt.Sleep(time.Duration(x.Choose("gap", 6)) * 700 * time.Millisecond)
			x.Ev("op", op, "", 0)
			switch op {
			case "register-C":
				a.hub.RegisterRemoteSKI(c.ski)
			case "unregister-C":
				a.hub.UnregisterRemoteSKI(c.ski)
			case "cancel-C":
				a.hub.CancelPairingWithSKI(c.ski)
			case "disconnect-C":
				a.hub.DisconnectSKI(c.ski, "x")
			case "cancel-B":
				a.hub.CancelPairingWithSKI(r.spell(b.ski))
			case "disconnect-B":
				a.hub.DisconnectSKI(r.spell(b.ski), "x")
			case "unregister-B":
				a.hub.UnregisterRemoteSKI(r.spell(b.ski))
			case "detail-B":
				if storedThenWithdrawn == "cancel-during-dial" && completedBefore() {
					// nothing was pending when the user cancelled: the completed pairing stays
					break
				}
				if duringDial && completedBefore() && x.S.Now()-withdrawnAt < 2*time.Second {
					// a completed connection is closed gracefully: it announces the close and
					// stays registered for the 500 ms the peer gets to confirm
					break
				}
				if st := a.hub.PairingDetailForSki(b.ski).State(); st == 5 || st == 7 {
					x.Violate("pairing-detail-trusted-without-trust", "", fmt.Sprintf("hub A reports pairing state %d for B, which it never trusted", st))
					return
				}
			}
		}
		simrt.Sleep(100 * time.Second)
		if storedThenWithdrawn == "cancel-during-dial" && completedBefore() {
			// nothing was pending any more: a cancel leaves a completed connection alone
			x.Probe("cancel-after-completion")
			x.S.Stop("done")
			return
		}
		if st := a.hub.PairingDetailForSki(b.ski).State(); st == 5 || st == 7 {
			x.Violate("pairing-detail-trusted-without-trust", "", fmt.Sprintf("hub A reports pairing state %d for B, which it never trusted", st))
			return
		}
		if a.hub.ServiceForSKI(b.ski).Trusted() {
			x.Violate("trusted-without-user", "", "hub A marks B as trusted although the user never registered it and auto-accept is off")
			return
		}
		if x.Feat(FeatMoreInputs) {
			// 100 s after the last operation: whatever connection A has with B (B keeps
			// dialling) must not be a completed one
			if c := a.hub.VerifConnections()[b.ski]; c != nil {
				if st, _ := c.ShipHandshakeState(); st == model.SmeStateComplete {
					x.Violate("completed-connection-without-trust", "", fmt.Sprintf("100 s after the user's last operation hub A has a completed connection with B, which it does not trust (withdrawn by: %q)", storedThenWithdrawn))
					return
				}
			}
		}
		x.S.Stop("done")
	})
	x.OnFinal(func() {
		if storedThenWithdrawn == "cancel-during-dial" && completedBefore() {
			// the cancel found a completed pairing: nothing was pending, nothing was
			// withdrawn (a completed pairing is ended with UnregisterRemoteSKI) - B stays
			// a trusted peer for the rest of the run
			x.Probe("cancel-after-completion")
			return
		}
		pendingSeen := false
		for _, e := range x.Events() {
			if e.A != "A" {
				continue
			}
			if duringDial && e.Seq < withdrawnSeq {
				// B was trusted until the user withdrew the pairing
				continue
			}
			if duringDial && e.Kind == "app-pairing" {
				// delayed notifications may carry a state produced before the withdrawal;
				// the states themselves are judged below, where they are produced
				continue
			}
			switch e.Kind {
			case "app-setup":
				if e.B == b.ski {
					x.Violate("setup-without-trust", "hub", "hub A called SetupRemoteDevice for B, which it never trusted")
					return
				}
			case "app-payload":
				if e.B == b.ski {
					x.Violate("payload-without-trust", "hub", "hub A delivered a SPINE payload from B, which it never trusted")
					return
				}
			case "app-pairing":
				if len(e.B) >= len(b.ski) && e.B[:len(b.ski)] == b.ski {
					st := e.N / 1000000
					if st == 3 {
						pendingSeen = true
					}
					if st == 5 || st == 7 {
						x.Violate("pairing-detail-trusted-without-trust", "notified", fmt.Sprintf("hub A notified pairing state %d for B, which it never trusted", st))
						return
					}
				}
			}
		}
		if duringDial {
			x.Probe("withdrawn-during-dial")
			dialled := false
			for _, e := range x.Events() {
				if e.Kind == "dial" && e.A == "A" && e.B == "B" && e.Seq < withdrawnSeq {
					dialled = true
				}
				if e.Kind == "pairing-produced" && e.A == "A" && e.B == b.ski && e.Seq > withdrawnSeq {
					if st := e.N / 1000000; st == 5 || st == 7 {
						x.Violate("pairing-detail-trusted-without-trust", "after-withdrawal", fmt.Sprintf("hub A set pairing state %d for B after the user had withdrawn the pairing (%s, %v after Start)", st, storedThenWithdrawn, withdrawGap))
						return
					}
				}
			}
			if dialled {
				x.NonTrivial()
				x.Probe("withdrawn-while-own-dial-in-flight")
			}
		}
		if pendingSeen {
			x.NonTrivial()
			x.Probe("reached-pending-listen")
		}
	})
}

// dialSeen: has hub `from` started a dial to `to`?
func dialSeen(x *Ctx, from, to string) bool {
	for _, e := range x.Events() {
		if e.Kind == "dial" && e.A == from && e.B == to {
			return true
		}
	}
	return false
}
