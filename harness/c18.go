//go:build verif

package harness

import (
	"fmt"
	"strings"
	"time"

	"verif/simnet"
	"verif/simrt"
)

func init() {
	register(&Scenario{Prop: "C18", NoStalls: true, Horizon: 2 * time.Hour, Steps: 300000, Setup: setupC18})
}

var c18Kinds = []string{"success", "success", "remote-denial", "ship-id-mismatch", "cut", "pending", "pending-approve", "pending-cancel", "success-disconnect"}

// kinds in which the application reacts to a state change at once: the direct notification
// of its API call and the delayed one of the state change are under way together
var c18QuickKinds = []string{"denial-then-retry", "pending-drop-then-retry", "success-disconnect-then-unregister"}

func setupC18(x *Ctx) {
	r := newHubRig(x)
	a, b := r.addNode("A"), r.addNode("B")
	kinds := c18Kinds
	if x.Feat(FeatQuickRetry) {
		kinds = append(append([]string(nil), c18Kinds...), c18QuickKinds...)
	}
	kind := Pick(x, "kind", kinds)
	reactAfter := time.Duration(0)
	if x.Feat(FeatQuickRetry) {
		reactAfter = []time.Duration{0, 50 * time.Millisecond, 200 * time.Millisecond, 450 * time.Millisecond, 600 * time.Millisecond}[x.Choose("react-after", 5)]
	}
	lat := []time.Duration{0, 0, time.Millisecond, 40 * time.Millisecond, 600 * time.Millisecond}[x.Choose("latency", 5)]
	x.Net.Latency = func(*simnet.Conn) time.Duration { return lat }
	x.SigAdd("kind="+kind, fmt.Sprintf("lat=%v", lat))
	x.SetSample(map[string]any{"kind": kind, "latency": lat.String()})

	// what B's application does inside the delayed pairing notifications
	appB := "returns-at-once"
	if x.Feat(FeatAppInCallback) {
		appB = PickB(x, "app-in-callback", 0.5, []string{"returns-at-once", "slow", "approves-in-callback"})
	}
	x.SigAdd("appB=" + appB)
	// A always registers B (and dials); what B does depends on the scenario
	x.Go("A:start", func() {
		a.create()
		simrt.Recv("b", b.ready)
		if kind == "ship-id-mismatch" {
			a.hub.ServiceForSKI(b.ski).SetShipID("WRONG-ID")
		}
		a.hub.Start()
		a.hub.RegisterRemoteSKI(b.ski)
	})
	x.Go("B:start", func() {
		b.create()
		switch appB {
		case "slow":
			b.app.inPairingCB = func(string, int) { simrt.Sleep(400 * time.Millisecond) }
		case "approves-in-callback":
			approved := false
			b.app.inPairingCB = func(ski string, state int) {
				if state == 3 && !approved { // received pairing request
					approved = true
					x.Probe("approved-inside-notification")
					b.hub.RegisterRemoteSKI(ski)
					simrt.Sleep(400 * time.Millisecond) // ... and stores the decision
				}
			}
		}
		simrt.Recv("a", a.ready)
		switch kind {
		case "success", "ship-id-mismatch", "cut", "success-disconnect":
			b.hub.RegisterRemoteSKI(a.ski)
		case "remote-denial", "denial-then-retry":
			b.app.mu.Lock()
			b.app.allowWaiting = false
			b.app.mu.Unlock()
		case "success-disconnect-then-unregister":
			b.hub.RegisterRemoteSKI(a.ski)
		}
		b.hub.Start()
	})
	stable := func(phase string) bool {
		// a stable point: no pairing state has been produced for 3 simulated s
		// (every delayed notification is 500 ms behind its production)
		simrt.Sleep(5 * time.Second)
		for i := 0; i < 240; i++ {
			var lastProd time.Duration
			for _, e := range x.Events() {
				if e.Kind == "pairing-produced" || e.Kind == "app-pairing" {
					lastProd = e.T
				}
			}
			if x.S.Now()-lastProd >= 3*time.Second {
				ok, still := checkPairingNotifications(x, r, phase)
				if still {
					return ok
				}
				// a state was produced while the hubs were being asked: not a stable point
				x.Probe("stable-point-overtaken")
			}
			simrt.Sleep(500 * time.Millisecond)
		}
		x.Probe("no-stable-point-within-2-minutes")
		return true
	}
	if x.Feat(FeatMoreInputs) && x.Chance("bystander-ops", 0.5) {
		// A's user is busy with another device meanwhile: operations on a foreign SKI shortly
		// after hub A has produced a pairing state for B
		foreign := strings.Repeat("c0", 20)
		nOps := 1 + x.Choose("bystander-n", 4)
		x.SigAdd("bystander")
		x.Go("X:bystander", func() {
			simrt.Recv("a", a.ready)
			seen := 0
			for k := 0; k < nOps; k++ {
				found := false
				for i := 0; i < 6000 && !found; i++ {
					n := 0
					for _, e := range x.Events() {
						if e.Kind == "pairing-produced" && e.A == "A" && e.B == b.ski {
							n++
						}
					}
					if n > seen {
						seen, found = n, true
						break
					}
					simrt.Sleep(10 * time.Millisecond)
				}
				if !found {
					return
				}
				simrt.Sleep([]time.Duration{0, 50 * time.Millisecond, 200 * time.Millisecond, 450 * time.Millisecond}[x.Choose("bystander-gap", 4)])
				op := x.Choose("bystander-op", 3)
				x.Probe("operation-on-another-ski-near-state-change")
				a.on("op", func() {
					switch op {
					case 0:
						a.hub.RegisterRemoteSKI(foreign)
					case 1:
						a.hub.UnregisterRemoteSKI(foreign)
					default:
						a.hub.CancelPairingWithSKI(foreign)
					}
				})
			}
		})
	}
	x.Go("X:script", func() {
		simrt.Recv("a", a.ready)
		simrt.Recv("b", b.ready)
		if kind == "cut" {
			// cut the link at a drawn moment of the handshake
			n := 1 + x.Choose("cut-after-chunks", 25)
			for i := 0; i < 4000; i++ {
				cs := x.Net.Conns()
				if len(cs) >= 2 && cs[0].Delivered+cs[1].Delivered >= n {
					cs[0].Cut()
					break
				}
				simrt.Sleep(time.Millisecond)
			}
		}
		// A's application reacts to the first 'disconnected' of B within half a second
		waitDisc := func() bool {
			for i := 0; i < 3000; i++ {
				for _, e := range x.Events() {
					if e.Kind == "app-disconnected" && e.A == "A" {
						return true
					}
				}
				simrt.Sleep(10 * time.Millisecond)
			}
			return false
		}
		switch kind {
		case "denial-then-retry":
			if waitDisc() {
				simrt.Sleep(reactAfter)
				x.Probe("api-call-right-after-state-change")
				a.on("op", func() { a.hub.RegisterRemoteSKI(b.ski) })
			}
		case "pending-drop-then-retry":
			// B waits for its user, then drops the connection; A retries at once
			simrt.Sleep(2 * time.Second)
			b.on("op", func() { b.hub.DisconnectSKI(a.ski, "x") })
			r.eth.hideFrom("A", "B")
			if waitDisc() {
				simrt.Sleep(reactAfter)
				x.Probe("api-call-right-after-state-change")
				a.on("op", func() { a.hub.RegisterRemoteSKI(b.ski) })
			}
		case "success-disconnect-then-unregister":
			simrt.Sleep(3 * time.Second)
			b.on("op", func() { b.hub.DisconnectSKI(a.ski, "x") })
			if waitDisc() {
				simrt.Sleep(reactAfter)
				x.Probe("api-call-right-after-state-change")
				a.on("op", func() { a.hub.UnregisterRemoteSKI(b.ski) })
			}
		}
		if !stable("first") {
			return
		}
		switch kind {
		case "pending-approve":
			b.on("op", func() { b.hub.RegisterRemoteSKI(a.ski) })
		case "pending-cancel":
			done := 0
			for _, e := range x.Events() {
				if e.Kind == "app-setup" && e.A == "B" {
					done = 1 // B's application approved from inside the notification: nothing is pending
				}
			}
			x.Ev("op-cancel", "B", a.ski, done)
			b.on("op", func() { b.hub.CancelPairingWithSKI(a.ski) })
		case "success-disconnect":
			a.on("op", func() { a.hub.DisconnectSKI(b.ski, "bye") })
		case "success":
			if x.Chance("unregister", 0.4) {
				b.on("op", func() { b.hub.UnregisterRemoteSKI(a.ski) })
			}
		}
		if !stable("second") {
			return
		}
		x.S.Stop("done")
	})
}

// checkPairingNotifications is the C18 oracle at a stable point.
// The second result is false if a pairing state was produced less than 3 s before the
// hubs had answered (then nothing is judged).
func checkPairingNotifications(x *Ctx, r *hubRig, phase string) (bool, bool) {
	type key struct{ node, ski string }
	last := map[key]int{}
	lastKind := map[key]string{}
	water := map[key]int{}
	count := map[key]int{}
	bad := false
	// ask the hubs first (needs scheduling, which stops at the first violation)
	current := map[key]int{}
	for _, nn := range r.order {
		for _, mn := range r.order {
			n, m := r.nodes[nn], r.nodes[mn]
			if n != m {
				n.on("query", func() { current[key{n.name, m.ski}] = int(n.hub.PairingDetailForSki(m.ski).State()) })
			}
		}
	}
	for _, e := range x.Events() {
		if (e.Kind == "pairing-produced" || e.Kind == "app-pairing") && x.S.Now()-e.T < 3*time.Second {
			return true, false
		}
	}
	prodAt := map[int]time.Duration{} // production time of pairing detail #seq
	lastSeq := map[key]int{}
	newest := map[key]int{}
	newestEv := map[key]int{}               // event number of that production
	lastChangeAt := map[key]time.Duration{} // last time the hub's state for the SKI was set (handshake or API call)
	for _, e := range x.Events() {
		if e.Kind == "pairing-produced" {
			prodAt[e.N%1000000] = e.T
			newest[key{e.A, e.B}] = e.N % 1000000
			newestEv[key{e.A, e.B}] = e.Seq
			lastChangeAt[key{e.A, e.B}] = e.T
		}
		if e.Kind == "app-pairing" && strings.HasSuffix(e.B, "|direct") {
			// RegisterRemoteSKI / UnregisterRemoteSKI / CancelPairingWithSKI set the state
			// themselves and notify synchronously
			lastChangeAt[key{e.A, strings.TrimSuffix(e.B, "|direct")}] = e.T
		}
		if e.Kind != "app-pairing" {
			continue
		}
		parts := strings.SplitN(e.B, "|", 2)
		k := key{e.A, parts[0]}
		state, seq := e.N/1000000, e.N%1000000
		count[k]++
		if parts[1] == "delayed" {
			if seq != 0 && seq < water[k] {
				discr := "produced-at-different-instants"
				if prodAt[seq] == prodAt[water[k]] {
					discr = "produced-at-the-same-instant"
				}
				x.Violate("older-state-after-newer", discr, fmt.Sprintf("%s phase: hub %s delivered pairing state %d (produced as #%d) for %s after a notification of a state produced as #%d", phase, k.node, state, seq, r.skiName(k.ski), water[k]))
				bad = true
			}
			if seq > water[k] {
				water[k] = seq
			}
		} else if seq > water[k] {
			water[k] = seq
		}
		last[k] = state
		lastKind[k] = parts[1]
		lastSeq[k] = seq
	}
	for _, nn := range r.order {
		for _, mn := range r.order {
			n, m := r.nodes[nn], r.nodes[mn]
			if n == m {
				continue
			}
			k := key{n.name, m.ski}
			if count[k] == 0 {
				if cur := current[k]; cur != 0 && x.Feat(FeatMoreInputs) {
					x.Violate("last-notification-stale", "never-notified", fmt.Sprintf("%s phase: hub %s never delivered a ServicePairingDetailUpdate for %s, PairingDetailForSki says %d", phase, n.name, m.name, cur))
					bad = true
				}
				continue
			}
			cur := current[k]
			if cur != last[k] {
				discr := "produced-at-different-instants"
				// the known finding: the object delivered last is not the newest one, it was
				// produced at the same instant as the newest and overtaken by it. (If the
				// newest object itself was delivered last and still differs from what the hub
				// says, its content is stale - something else.)
				if lastKind[k] == "delayed" && lastSeq[k] != newest[k] && prodAt[lastSeq[k]] == prodAt[newest[k]] {
					discr = "produced-at-the-same-instant"
				}
				if lastKind[k] == "delayed" && lastSeq[k] == newest[k] {
					// the newest state was delivered last, and still the hub - which answers from its
					// registered connection - says something else: was a connection of this hub
					// replaced by a double connection and still alive (not yet reported closed)
					// when that newest state was produced?
					// ... and had its closing not even begun by then? (Once CloseConnection has been
					// entered nothing is reported any more - 1790497; a state produced after that
					// is not this finding.)
					regs := 0
					closeBegan := map[string]int{}
					closedAfter := false
					for _, e := range x.Events() {
						if e.A != n.name {
							continue
						}
						switch e.Kind {
						case "hub-register":
							if e.Seq < newestEv[k] {
								regs++
							}
						case "close-entered":
							if closeBegan[e.B] == 0 {
								closeBegan[e.B] = e.Seq
							}
						case "hub-closed":
							if e.Seq > newestEv[k] && closeBegan[e.B] > newestEv[k] {
								closedAfter = true
							}
						}
					}
					if regs >= 2 && closedAfter {
						discr = "state-of-replaced-double-connection"
					}
				}
				if lastKind[k] == "direct" && last[k] == 0 && cur == 7 {
					for _, e := range x.Events() {
						if e.Kind == "op-cancel" && e.A == n.name && e.B == m.ski && e.N == 1 {
							// CancelPairingWithSKI on a connection that is already completed
							discr = "cancel-on-completed-connection"
						}
					}
				}
				x.Violate("last-notification-stale", discr, fmt.Sprintf("%s phase: the last ServicePairingDetailUpdate hub %s delivered for %s shows state %d, PairingDetailForSki says %d (%d notifications)", phase, n.name, m.name, last[k], cur, count[k]))
				bad = true
				continue
			}
			x.SigAdd(fmt.Sprintf("%s:%s=%d", phase, n.name, cur))
		}
	}
	x.NonTrivial()
	return !bad, true
}
