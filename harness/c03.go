//go:build verif

package harness

import (
	"fmt"
	"sync/atomic"
	"time"

	"github.com/enbility/ship-go/model"

	"verif/simnet"
	"verif/simrt"
)

func init() {
	register(&Scenario{Prop: "C03", Horizon: 3 * time.Hour, Steps: 120000, Setup: setupC03})
}

var c03Trust = []string{"paired", "auto", "approve", "approve", "cancel", "no-waiting", "revoke", "never"}
var c03Delays = []time.Duration{0, 0, time.Second, 20 * time.Second, 45 * time.Second, 100 * time.Second, 200 * time.Second}

func setupC03(x *Ctx) {
	timely := x.Chance("timely", 0.6)
	trust := Pick(x, "trustB", c03Trust)
	idsA := Pick(x, "storedA", []string{"", "SHIPID-B", "WRONG"})
	idsB := Pick(x, "storedB", []string{"", "SHIPID-A", "WRONG"})
	delay := c03Delays[x.Choose("user-delay", len(c03Delays))]
	mode := "arbitrary"
	if timely {
		mode = "timely"
		lat := []time.Duration{0, time.Millisecond, 50 * time.Millisecond, 400 * time.Millisecond}[x.Choose("latency", 4)]
		x.Net.Latency = func(*simnet.Conn) time.Duration { return lat }
		// decisions that fall into a prolongation round trip (request at 30 s, 60 s+...
		// after the remote's hello; the answer is one round trip later)
		if x.Chance("decide-around-prolongation", 0.35) {
			round := time.Duration(30*(1+x.Choose("prolong-round", 3))) * time.Second
			delay = round + time.Duration(x.Choose("in-rtt", 9))*lat/2 - lat
			if delay < 0 {
				delay = round
			}
		}
	} else {
		x.Net.Latency = func(*simnet.Conn) time.Duration {
			return arbitraryLatencies[x.S.ChooseBiased("latency", len(arbitraryLatencies), 0.5)]
		}
	}
	x.SigAdd("mode="+mode, "trust="+trust, "idA="+idsA, "idB="+idsB, "delay="+delay.String())

	s := newShip2(x, ship2Opts{storedA: idsA, storedB: idsB})
	switch trust {
	case "paired":
		s.B.prov.paired = true
	case "auto":
		s.B.prov.autoAccept = true
	case "no-waiting":
		s.B.prov.allowWaiting = false
	}
	pendingCh := make(chan struct{})
	var pendingOnce atomic.Bool
	s.B.prov.onState = func(st model.ShipState) {
		if st.State == model.SmeHelloStatePendingListen && pendingOnce.CompareAndSwap(false, true) {
			close(pendingCh)
		}
	}
	resolved := make(chan struct{})
	approveEffective, cancelEffective := false, false
	if trust == "approve" || trust == "cancel" || trust == "revoke" {
		x.Go("B:user", func() {
			defer close(resolved)
			simrt.Recv("pending", pendingCh)
			if delay > 0 {
				simrt.Sleep(delay)
			}
			st, _ := s.B.conn.ShipHandshakeState()
			switch trust {
			case "approve":
				s.B.prov.set(func() { s.B.prov.paired = true })
				x.Ev("user-approve", "B", "", int(st))
				s.B.conn.ApprovePendingHandshake()
				x.Ev("user-approve-ret", "B", "", 0)
			case "cancel":
				x.Ev("user-cancel", "B", "", int(st))
				s.B.conn.AbortPendingHandshake()
				x.Ev("user-cancel-ret", "B", "", 0)
			case "revoke":
				x.Ev("user-revoke", "B", "", int(st))
				s.B.prov.set(func() { s.B.prov.allowWaiting = false })
			}
		})
	} else {
		close(resolved)
	}
	x.Go("X:end", func() {
		s.waitReady()
		if trust == "approve" || trust == "cancel" || trust == "revoke" {
			// the request may never become pending (e.g. connection lost earlier)
			for i := 0; i < 40; i++ {
				select {
				case <-resolved:
					i = 1000
				default:
					simrt.Sleep(30 * time.Second)
				}
			}
		}
		simrt.Sleep(20 * time.Minute)
		x.S.Stop("done")
	})

	x.OnFinal(func() {
		a, b := s.summarise("A"), s.summarise("B")
		evs := x.Events()
		// did the user's decision take effect while the request was pending?
		for i, e := range evs {
			if e.Kind == "user-approve" && e.N == 11 {
				for _, f := range evs[i:] {
					if f.Kind == "state" && f.A == "B" && f.N == 7 {
						approveEffective = true
					}
					if f.Kind == "user-approve-ret" {
						break
					}
				}
			}
			if e.Kind == "user-cancel" && e.N == 11 {
				for _, f := range evs[i:] {
					if f.Kind == "state" && f.A == "B" && f.N == 14 {
						cancelEffective = true
					}
					if f.Kind == "user-cancel-ret" {
						break
					}
				}
			}
		}
		status := func(st endState, nc *simnet.Conn) string {
			switch {
			case st.closed > 0:
				return "ended"
			case st.completed:
				return "completed"
			default:
				return "open:" + fmt.Sprint(st.lastState)
			}
		}
		sa, sb := status(a, s.A.nc), status(b, s.B.nc)
		x.SigAdd("A="+sa, "B="+sb)
		x.SetSample(map[string]any{"mode": mode, "trustB": trust, "storedA": idsA, "storedB": idsB, "user_delay": delay.String(), "A": sa, "B": sb, "statesA": a.states, "statesB": b.states})
		if a.setups > 1 || b.setups > 1 {
			x.Violate("setup-more-than-once", "", fmt.Sprintf("SetupRemoteDevice calls: A=%d B=%d", a.setups, b.setups))
			return
		}
		for _, p := range []struct {
			n  string
			st endState
			nc *simnet.Conn
		}{{"A", a, s.A.nc}, {"B", b, s.B.nc}} {
			if p.st.closed > 0 && !p.nc.Closed() {
				x.Violate("ended-without-closing-transport", p.n, fmt.Sprintf("%s reported the connection closed but never closed its socket", p.n))
				return
			}
		}
		// the two sides never disagree for good
		aDone, bDone := sa == "completed", sb == "completed"
		aEnd, bEnd := sa == "ended", sb == "ended"
		if aDone != bDone || aEnd != bEnd {
			// one side still waiting for the user is fine only if the user never decided
			x.Violate("endpoints-disagree", fmt.Sprintf("%s/%s", stripNum(sa), stripNum(sb)), fmt.Sprintf("%s mode, trust=%s, delay %v: at quiescence A is %s and B is %s (A states %v, B states %v)", mode, trust, delay, sa, sb, a.states, b.states))
			return
		}
		idsOK := (idsA == "" || idsA == "SHIPID-B") && (idsB == "" || idsB == "SHIPID-A")
		granted := trust == "paired" || trust == "auto" || (trust == "approve" && approveEffective)
		denied := trust == "no-waiting" || (trust == "cancel" && cancelEffective)
		if denied && (a.completed || b.completed) {
			x.Violate("completed-without-trust", "", fmt.Sprintf("%s mode, trust=%s (cancel effective=%v), stored ids ok=%v: completed A=%v B=%v", mode, trust, cancelEffective, idsOK, a.completed, b.completed))
			return
		}
		if timely {
			x.NonTrivial()
			if granted && idsOK {
				if !aDone || !bDone {
					x.Violate("timely-trusted-not-completed", trust, fmt.Sprintf("timely mode, trust=%s (delay %v), SHIP ids ok: A is %s, B is %s (A states %v, B states %v)", trust, delay, sa, sb, a.states, b.states))
					return
				}
				if a.setups != 1 || b.setups != 1 {
					x.Violate("setup-not-exactly-once", "", fmt.Sprintf("SetupRemoteDevice calls: A=%d B=%d", a.setups, b.setups))
					return
				}
				if idsA == "" && (len(a.shipIDs) != 1 || a.shipIDs[0] != "SHIPID-B") {
					x.Violate("ship-id-not-learned", "A", fmt.Sprintf("A learned %v, B's SHIP ID is SHIPID-B", a.shipIDs))
					return
				}
				if idsB == "" && (len(b.shipIDs) != 1 || b.shipIDs[0] != "SHIPID-A") {
					x.Violate("ship-id-not-learned", "B", fmt.Sprintf("B learned %v, A's SHIP ID is SHIPID-A", b.shipIDs))
					return
				}
				x.Probe("both-completed")
			}
			if denied || (granted && !idsOK) {
				if !aEnd || !bEnd {
					x.Violate("denied-not-ended", trust, fmt.Sprintf("timely mode, trust=%s, ids ok=%v: A is %s, B is %s", trust, idsOK, sa, sb))
					return
				}
				x.Probe("both-ended")
			}
		} else if aEnd || aDone {
			x.NonTrivial()
		}
		if approveEffective {
			x.Probe("approved-while-pending")
		}
		if cancelEffective {
			x.Probe("cancelled-while-pending")
		}
	})
}

func stripNum(s string) string {
	if len(s) > 5 && s[:5] == "open:" {
		return "open"
	}
	return s
}
