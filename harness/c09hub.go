//go:build verif

package harness

import (
	"fmt"
	"time"

	"verif/simnet"
	"verif/simrt"
)

// c09Hub: two real hubs; the application of A has (or has not) stored a SHIP
// ID for B before the connection is made - by either side (A in client or in
// server role). B's real SHIP ID equals or differs from the stored one.
func c09Hub(x *Ctx) {
	x.SigAdd("engine=hub")
	x.S.LimitSteps(30000)
	r := newHubRig(x)
	a, b := r.addNode("A"), r.addNode("B")
	lat := []time.Duration{0, time.Millisecond, 30 * time.Millisecond}[x.Choose("latency", 3)]
	x.Net.Latency = func(*simnet.Conn) time.Duration { return lat }
	stored := Pick(x, "stored", []string{"", "SHIPID-B", "SOMETHING-ELSE", "SHIPID-B ", "SHIPID-"})
	dialler := Pick(x, "dialler", []string{"A", "B", "both"})
	// A first connection (made by B) is lost while A does not trust B yet; A's user pairs
	// afterwards and B connects again: the stored SHIP ID must still bind
	latePairing := x.Feat(FeatLatePairing) && x.Chance("late-pairing", 0.4)
	lossKind, pairGap := "", time.Duration(0)
	if latePairing {
		if dialler == "A" {
			dialler = "B"
		}
		lossKind = Pick(x, "first-loss", []string{"cut", "cut", "peer-disconnect"})
		pairGap = time.Duration(x.Choose("pair-gap", 4)) * time.Second
		x.SigAdd("late-pairing=" + lossKind)
	}
	x.SigAdd("stored="+stored, "dialler="+dialler)
	x.SetSample(map[string]any{"engine": "hub", "stored_ship_id_for_B_at_A": stored, "real_ship_id_of_B": "SHIPID-B", "who_dials": dialler, "latency": lat.String()})
	x.Go("A:start", func() {
		a.create()
		simrt.Recv("b", b.ready)
		if stored != "" {
			a.hub.ServiceForSKI(b.ski).SetShipID(stored)
		}
		if !latePairing {
			a.hub.RegisterRemoteSKI(b.ski) // before Start: stored pairing, A trusts B
		}
		a.hub.Start()
		if latePairing {
			// wait for B's first connection, lose it while B is still waiting for trust
			for i := 0; i < 400; i++ {
				seen := false
				for _, e := range x.Events() {
					if e.Kind == "hub-register" && e.A == "A" {
						seen = true
					}
				}
				if seen {
					break
				}
				simrt.Sleep(50 * time.Millisecond)
			}
			simrt.Sleep(time.Duration(x.Choose("loss-after", 4)) * 300 * time.Millisecond)
			x.Probe("first-connection-lost-while-untrusted")
			if lossKind == "cut" {
				r.cutNewest("A")
			} else {
				hb, as := b.hub, a.ski
				b.spawn("op", func() { hb.DisconnectSKI(as, "x") })
			}
			simrt.Sleep(pairGap)
			a.hub.RegisterRemoteSKI(b.ski)
		}
		if dialler == "B" {
			// A must not dial: hide B from A's mDNS view
			return
		}
	})
	x.Go("B:start", func() {
		b.create()
		simrt.Recv("a", a.ready)
		b.hub.RegisterRemoteSKI(a.ski)
		b.hub.Start()
	})
	switch dialler {
	case "A":
		// B never learns about A via mDNS, so only A dials (A is the client)
		r.eth.hideFrom("B", "A")
	case "B":
		r.eth.hideFrom("A", "B")
	}
	x.Go("X:end", func() {
		simrt.Recv("a", a.ready)
		simrt.Recv("b", b.ready)
		simrt.Sleep(40 * time.Second)
		x.S.Stop("done")
	})
	x.OnFinal(func() {
		match := stored == "" || stored == "SHIPID-B"
		setups, reports := 0, []Event{}
		setupSeq := 0
		for _, e := range x.Events() {
			if e.A != "A" {
				continue
			}
			switch e.Kind {
			case "app-setup":
				if e.B == b.ski {
					setups++
					if setupSeq == 0 {
						setupSeq = e.Seq
					}
				}
			case "app-shipid":
				reports = append(reports, e)
			}
		}
		if !match && setups > 0 {
			x.Violate("setup-with-wrong-ship-id", "hub", fmt.Sprintf("hub A has stored SHIP ID %q for B, B presents SHIPID-B, dialled by %s: SetupRemoteDevice was called %d time(s)", stored, dialler, setups))
			return
		}
		if stored != "" && len(reports) > 0 {
			x.Violate("known-id-reported", "hub", fmt.Sprintf("hub A has stored SHIP ID %q for B but ServiceShipIDUpdate(%s) was called (dialled by %s)", stored, reports[0].B, dialler))
			return
		}
		if stored == "" && setups > 0 {
			if len(reports) == 0 || reports[0].Seq > setupSeq {
				x.Violate("ship-id-not-reported-before-setup", "hub", fmt.Sprintf("hub A learned B's SHIP ID but reported it %d time(s), first report after setup: %v", len(reports), len(reports) > 0))
				return
			}
		}
		if setups > 0 || !match {
			x.NonTrivial()
		}
		if setups > 0 {
			x.Probe("completed")
		}
		x.SigAdd(fmt.Sprintf("setups=%d reports=%d", setups, len(reports)))
	})
}
