//go:build verif

package harness

import (
	"fmt"
	"strconv"
	"strings"
	"testing"

	"github.com/gorilla/websocket"

	"verif/simnet"
	"verif/simrt"
)

func init() {
	register(&Scenario{Prop: "C13", Horizon: 20 * 60 * sec, Steps: 60000, PanicIsViolation: false, Setup: setupC13})
	enumerators["C13"] = enumC13
}

var c13CloseCodes = []int{1000, 1001, 1006, 4001, 4452, 0, 65535}

// enumC13 lists every single-fault variant: the k-th transport read and the
// k-th transport write of the session, for every k up to the largest count
// seen in fault-free probe runs (plus a margin), peer close codes, local closes.
func enumC13(t *testing.T, tier string) []string {
	maxR, maxW := 0, 0
	for i := 0; i < 6; i++ {
		spec := RunSpec{Prop: "C13", Variant: "none", Seed: uint64(1000 + i), Tier: tier, Feat: FeatAll}
		if i == 0 {
			spec.Replay = []int{}
		}
		res := Execute(t, spec)
		if m, ok := res.Sample.(map[string]any); ok {
			if r, ok := m["reads"].(int); ok && r > maxR {
				maxR = r
			}
			if w, ok := m["writes"].(int); ok && w > maxW {
				maxW = w
			}
		}
	}
	vs := []string{"none", "lc0", "lc1", "peer-eof", "cut"}
	for _, c := range c13CloseCodes {
		vs = append(vs, "pc"+strconv.Itoa(c))
	}
	for k := 1; k <= maxR+2; k++ {
		vs = append(vs, "r"+strconv.Itoa(k))
	}
	for k := 1; k <= maxW+2; k++ {
		vs = append(vs, "w"+strconv.Itoa(k))
	}
	// the real SHIP layer as reader, sending direction stalled until the write deadline
	for i := 0; i < 4; i++ {
		vs = append(vs, "ship-pair")
	}
	// one direction only: the k-th and every later write fails, reads keep working
	for k := 1; k <= maxW+2; k++ {
		vs = append(vs, "wo"+strconv.Itoa(k))
	}
	return vs
}

func setupC13(x *Ctx) {
	if x.Spec.Variant == "ship-pair" {
		c12ShipPair(x)
		return
	}
	variant := x.Spec.Variant
	if variant == "" {
		variant = "none"
	}
	uutClient := x.Chance("uut-client", 0.5)
	x.SigAdd("v="+variant, fmt.Sprintf("client=%v", uutClient))
	failR, failW, failWO := 0, 0, 0
	switch {
	case strings.HasPrefix(variant, "r"):
		failR, _ = strconv.Atoi(variant[1:])
	case strings.HasPrefix(variant, "wo"):
		failWO, _ = strconv.Atoi(variant[2:])
	case strings.HasPrefix(variant, "w"):
		failW, _ = strconv.Atoi(variant[1:])
	}
	x.Net.OnFault = func(c *simnet.Conn, kind string) { x.Ev("fault-fired", kind, c.Name(), 0) }
	lcReturned := -1
	endDone := make(chan struct{})

	rig := newWsRig(x, uutClient, func(r *wsRig) {
		if failR > 0 {
			r.uc.FailAt(r.baseR+failR, 0, 0)
		}
		if failW > 0 {
			r.uc.FailAt(0, r.baseW+failW, 0)
		}
		if failWO > 0 {
			r.uc.FailAt(0, 0, r.baseW+failWO)
		}
		r.wc.InitDataProcessing(&wsRecorder{x: x, name: "U"})
		x.Go("U:writer", func() {
			for id := 0; id < 5; id++ {
				if id == 3 {
					simrt.Sleep(55 * sec) // a ping/pong round happens at 50 s
				}
				err := r.wc.WriteMessageToWebsocketConnection(idMsg(id))
				x.Ev("w-ret", errStr(err), "", id)
			}
		})
	})
	x.Go("P:reader", func() {
		simrt.Recv("peerReady", rig.peerReady)
		rig.peerReadLoop()
	})
	x.Go("P:writer", func() {
		simrt.Recv("peerReady", rig.peerReady)
		for id := 1000; id < 1005; id++ {
			if id == 1003 {
				simrt.Sleep(55 * sec)
			}
			if err := rig.peerSend(id); err != nil {
				x.Ev("p-senderr", errStr(err), "", id)
				return
			}
			x.Ev("p-sent", "", "", id)
		}
	})
	// concurrent traffic at the very moment of the end event
	x.Go("U:burst", func() {
		simrt.Recv("ready", rig.ready)
		simrt.Recv("peerReady", rig.peerReady)
		simrt.Sleep(62 * sec)
		for id := 50; id < 53; id++ {
			err := rig.wc.WriteMessageToWebsocketConnection(idMsg(id))
			x.Ev("w-ret", errStr(err), "", id)
		}
	})
	x.Go("P:burst", func() {
		simrt.Recv("peerReady", rig.peerReady)
		simrt.Sleep(62 * sec)
		for id := 1050; id < 1053; id++ {
			if err := rig.peerSend(id); err != nil {
				return
			}
		}
	})
	x.Go("X:end", func() {
		defer close(endDone)
		simrt.Recv("ready", rig.ready)
		simrt.Recv("peerReady", rig.peerReady)
		simrt.Sleep(62 * sec)
		cause := "none"
		switch {
		case variant == "lc0":
			rig.wc.CloseDataConnection(4001, "")
			lcReturned = x.Ev("lc-returned", "", "", 0)
			cause = "local"
		case variant == "lc1":
			rig.wc.CloseDataConnection(4001, "bye")
			lcReturned = x.Ev("lc-returned", "", "", 0)
			cause = "local"
		case variant == "peer-eof":
			_ = rig.pc.Close()
			cause = "remote"
		case variant == "cut":
			rig.uc.Cut()
			cause = "remote"
		case strings.HasPrefix(variant, "pc"):
			code, _ := strconv.Atoi(variant[2:])
			rig.pm.Lock()
			var payload []byte
			if code != 0 {
				payload = websocket.FormatCloseMessage(code, "x")
			}
			_ = rig.peer.WriteControl(websocket.CloseMessage, payload, timeNowPlus(5*sec))
			rig.pm.Unlock()
			cause = "remote"
		}
		x.Ev("end-event", variant, "", 0)
		// > pong wait (60 s) + write wait (10 s)
		simrt.Sleep(75 * sec)
		if cause == "none" && (rig.uc.Broken() || rig.uc.WriteBroken()) {
			cause = "fault"
		}
		x.SigAdd("cause=" + cause)

		evs := x.Events()
		nErr, firstErr := 0, -1
		for _, e := range evs {
			if e.Kind == "connerr" {
				nErr++
				if firstErr < 0 {
					firstErr = e.Seq
				}
			}
		}
		closed, cerr := rig.wc.IsDataConnectionClosed()
		switch cause {
		case "none":
			// fault-free twin: nothing may have been reported, everything delivered
			if nErr > 0 || closed {
				x.Violate("spurious-close", "", fmt.Sprintf("fault-free session: closed=%v, %d error report(s)", closed, nErr))
				return
			}
			got := map[int]bool{}
			for _, e := range evs {
				if e.Kind == "recv" {
					got[e.N] = true
				}
			}
			for id := 1000; id < 1005; id++ {
				if !got[id] {
					x.Violate("lost-message", "", fmt.Sprintf("fault-free session: message %d never delivered", id))
					return
				}
			}
			nr, nw, _ := rig.uc.Counts()
			x.SetSample(map[string]any{"variant": variant, "reads": nr - rig.baseR, "writes": nw - rig.baseW})
			x.S.Stop("done")
			return
		case "local":
			if nErr > 0 {
				x.Violate("error-reported-after-local-close", "", fmt.Sprintf("%s: ReportConnectionError called %d time(s) although the connection was closed deliberately", variant, nErr))
				return
			}
		default:
			x.NonTrivial()
			if nErr == 0 {
				x.Violate("loss-not-reported", cause, fmt.Sprintf("%s: transport failed / peer closed but ReportConnectionError was never called (75 simulated s later)", variant))
				return
			}
			if !closed || cerr == nil {
				x.Violate("closed-query-wrong", cause, fmt.Sprintf("%s: IsDataConnectionClosed() = (%v, %v) after the loss", variant, closed, cerr))
				return
			}
		}
		if !closed {
			x.Violate("closed-query-wrong", cause, fmt.Sprintf("%s: IsDataConnectionClosed() reports open", variant))
			return
		}
		// a failed transport operation ends the deliveries: the property says "no
		// further incoming message afterwards"; goroutines may be descheduled for
		// some milliseconds, so only a delivery more than 1 simulated s after the
		// failed operation is charged
		for _, f := range evs {
			if f.Kind != "fault-fired" {
				continue
			}
			for _, e := range evs {
				if e.Kind == "recv" && e.T > f.T+sec {
					x.Violate("delivery-after-failed-operation", f.A, fmt.Sprintf("%s: a transport %s happened at %v; message %d was still handed to the SHIP layer at %v", variant, f.A, f.T, e.N, e.T))
					return
				}
			}
			break
		}
		// nothing delivered afterwards
		bound := firstErr
		if cause == "local" {
			bound = lcReturned
		}
		late := 0
		var boundEv Event
		for _, e := range evs {
			if e.Seq == bound {
				boundEv = e
			}
		}
		for _, e := range evs {
			if e.Kind == "recv" && bound >= 0 && e.Seq > bound {
				late++
				// one message may be in flight through the read pump (it passed the
				// closed-check) while the other pump reports the error at that instant
				discr := cause
				// "in flight": the bytes of this message had been taken off the transport before
				// the end was known (the last completed transport read precedes the report),
				// and nothing was read afterwards
				lastRead := -1
				for _, r := range evs {
					// (any goroutine: gorilla's buffered reader may have taken the bytes off
					// the transport already while the websocket handshake was read)
					if r.Kind == "net-read" && r.Seq < e.Seq {
						lastRead = r.Seq
					}
				}
				if late == 1 && cause != "local" && e.Task != boundEv.Task && lastRead >= 0 && lastRead < bound {
					discr = "in-flight-in-read-pump-while-write-pump-reports"
				}
				x.Violate("delivery-after-close", discr, fmt.Sprintf("%s: message %d handed to the SHIP layer (by %s) after the connection end was known (reported by %s)", variant, e.N, e.Task, boundEv.Task))
				if late > 1 {
					return
				}
			}
		}
		if late > 0 {
			return
		}
		if alive := wsTasksAlive(x); len(alive) > 0 {
			x.Violate("pump-not-terminated", cause, fmt.Sprintf("%s: 75 simulated s after the end these ws goroutines still run: %v", variant, alive))
			return
		}
		nr, nw, ncl := rig.uc.Counts()
		if ncl == 0 {
			x.Violate("socket-not-closed", cause, fmt.Sprintf("%s: Close() was never called on the underlying network connection", variant))
			return
		}
		x.SetSample(map[string]any{"variant": variant, "cause": cause, "error_reports": nErr, "reads": nr - rig.baseR, "writes": nw - rig.baseW})
		x.S.Stop("done")
	})
}
