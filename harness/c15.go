//go:build verif

package harness

import (
	"fmt"
	"math/rand/v2"
	"strings"
	"time"

	"github.com/enbility/ship-go/util"

	"verif/simnet"
	"verif/simrt"
)

func init() {
	register(&Scenario{Prop: "C15", Horizon: time.Hour, Steps: 200000, Setup: setupC15, Twin: true})
}

var c15Ops = []string{"unregister", "disconnect", "cancel", "pairing-detail", "service-lookup", "register", "unregister", "disconnect"}
var c15States = []string{"completed", "pending", "none", "completed"}

// fmtSKI re-formats a SKI (case changes, inserted spaces and dashes) using a
// PRNG that is NOT the choice tape: the canonical and the re-formatted run
// consume identical scheduling choices.
func fmtSKI(rng *rand.Rand, ski string) string {
	var b strings.Builder
	mode := rng.IntN(4)
	for i, c := range ski {
		if i > 0 {
			switch {
			case mode == 0 && i%4 == 0:
				b.WriteByte(' ')
			case mode == 1 && i%2 == 0:
				b.WriteByte('-')
			case mode == 2 && rng.IntN(5) == 0:
				b.WriteString([]string{" ", "-", "  ", "- "}[rng.IntN(4)])
			}
		}
		s := string(c)
		if mode == 3 || rng.IntN(2) == 0 {
			s = strings.ToUpper(s)
		}
		b.WriteString(s)
	}
	return b.String()
}

func setupC15(x *Ctx) {
	formatted := x.Spec.Variant == "fmt"
	rng := rand.New(rand.NewPCG(x.Spec.Seed, 15))
	r := newHubRig(x)
	a, b := r.addNode("A"), r.addNode("B")
	state := Pick(x, "state", c15States)
	nOps := 1 + x.Choose("ops", 3)
	var ops []string
	for i := 0; i < nOps; i++ {
		ops = append(ops, c15Ops[x.Choose("op", len(c15Ops))])
	}
	lat := []time.Duration{0, time.Millisecond, 50 * time.Millisecond}[x.Choose("latency", 3)]
	x.Net.Latency = func(*simnet.Conn) time.Duration { return lat }
	x.SigAdd("state="+state, fmt.Sprintf("ops=%v", ops))
	f := func(ski string) string {
		if formatted {
			return fmtSKI(rng, ski)
		}
		return ski
	}
	var spellings []string
	note := func(format string, args ...any) {
		x.Ev("note", fmt.Sprintf(format, args...), "", 0)
	}
	x.Go("B:start", func() {
		b.create()
		simrt.Recv("a", a.ready)
		if state != "none" {
			b.hub.RegisterRemoteSKI(a.ski)
		}
		b.hub.Start()
	})
	x.Go("A:user", func() {
		a.create()
		simrt.Recv("b", b.ready)
		a.hub.Start()
		if state == "completed" {
			s := f(b.ski)
			spellings = append(spellings, s)
			a.hub.RegisterRemoteSKI(s)
		}
		simrt.Sleep(15 * time.Second) // the situation settles (completed / pending / nothing)
		for _, op := range ops {
			s := f(b.ski)
			spellings = append(spellings, s)
			x.Ev("op", op, "", 0)
			switch op {
			case "unregister":
				a.hub.UnregisterRemoteSKI(s)
			case "disconnect":
				a.hub.DisconnectSKI(s, "user")
			case "cancel":
				a.hub.CancelPairingWithSKI(s)
			case "register":
				a.hub.RegisterRemoteSKI(s)
			case "pairing-detail":
				note("PairingDetailForSki=%d", a.hub.PairingDetailForSki(s).State())
			case "service-lookup":
				sd := a.hub.ServiceForSKI(s)
				note("ServiceForSKI trusted=%v ski=%s", sd.Trusted(), r.skiName(sd.SKI()))
			}
			note("after %s: detail=%d trusted=%v registry=%v", op, a.hub.PairingDetailForSki(b.ski).State(), a.hub.ServiceForSKI(b.ski).Trusted(), regNames(r, a))
			simrt.Sleep(time.Duration(1+x.Choose("op-gap", 8)) * time.Second)
		}
		simrt.Sleep(40 * time.Second)
		note("final: detail=%d trusted=%v registry=%v", a.hub.PairingDetailForSki(b.ski).State(), a.hub.ServiceForSKI(b.ski).Trusted(), regNames(r, a))
		x.S.Stop("done")
	})
	x.OnFinal(func() {
		// the observable trace of this run, SKI spellings normalised to node names
		var log []string
		for _, e := range x.Events() {
			switch e.Kind {
			case "app-connected", "app-disconnected", "app-setup", "app-shipid", "hub-closed", "dial":
				log = append(log, fmt.Sprintf("%v %s %s %s %d", e.T, e.Kind, e.A, normSKIs(r, e.B), e.N))
			case "app-pairing":
				log = append(log, fmt.Sprintf("%v %s %s %s %d", e.T, e.Kind, e.A, normSKIs(r, e.B), e.N/1000000))
			case "op":
				log = append(log, "op: "+e.A)
			case "note":
				log = append(log, fmt.Sprintf("%v %s", e.T, e.A))
			}
		}
		x.twinLog = log
		x.NonTrivial()
		x.SetSample(map[string]any{"state": state, "ops": ops, "formatted_run": formatted, "spellings_used": spellings})
	})
}

func regNames(r *hubRig, n *hubNode) []string {
	var out []string
	for ski := range n.hub.VerifConnections() {
		out = append(out, r.skiName(util.NormalizeSKI(ski)))
	}
	sortStrings(out)
	return out
}

// normSKIs maps any spelling of a node's SKI inside s to the node name (the
// spelling a callback carries is not compared).
func normSKIs(r *hubRig, s string) string {
	parts := strings.FieldsFunc(s, func(c rune) bool { return c == '|' || c == '=' })
	if len(parts) > 0 {
		n := util.NormalizeSKI(parts[0])
		for _, name := range r.order {
			if r.nodes[name].ski == n {
				return name + s[len(parts[0]):]
			}
		}
	}
	for _, name := range r.order {
		s = strings.ReplaceAll(s, r.nodes[name].ski, name)
	}
	return s
}
