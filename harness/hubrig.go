//go:build verif

package harness

import (
	"crypto/tls"
	"crypto/x509"
	"fmt"
	"net"
	"sort"
	"strings"
	"sync"
	"sync/atomic"
	"time"

	"github.com/enbility/ship-go/api"
	"github.com/enbility/ship-go/cert"
	"github.com/enbility/ship-go/hub"
	"github.com/enbility/ship-go/mdns"

	"verif/simnet"
	"verif/simrt"
)

// ---------------------------------------------------------------- ether (simulated mDNS)

type etherItem struct {
	txt    []string
	name   string
	host   string
	addrs  []net.IP
	port   int
	remove bool
}

type etherProvider struct {
	eth  *ether
	node string
	ip   net.IP
	ip6  net.IP

	mu        sync.Mutex
	cb        api.MdnsResolveCB
	started   bool
	announced bool
	name      string
	port      int
	txt       []string
	queue     []etherItem
	wake      chan struct{}
	task      bool
	// startedCh is closed when the manager has started the provider (the
	// resolver callback is known from then on)
	startedCh chan struct{}
}

// ether connects the providers of all nodes: what one announces, the others resolve.
type ether struct {
	x     *Ctx
	mu    sync.Mutex
	provs []*etherProvider
	// Delay draws the propagation delay of one announcement to one listener.
	Delay  func() time.Duration
	hidden map[string]bool
	// Duplicates: items are delivered twice now and then
	Duplicates bool
	// Down: the multicast medium is unusable (announcements are lost)
	Down atomic.Bool
}

func newEther(x *Ctx) *ether {
	return &ether{x: x, Delay: func() time.Duration { return 0 }}
}

func (e *ether) provider(node string, ip, ip6 string) *etherProvider {
	p := &etherProvider{eth: e, node: node, ip: net.ParseIP(ip), wake: make(chan struct{}, 1), startedCh: make(chan struct{})}
	if ip6 != "" {
		p.ip6 = net.ParseIP(ip6)
	}
	e.mu.Lock()
	e.provs = append(e.provs, p)
	e.mu.Unlock()
	return p
}

// kill removes the provider of a crashed process: nothing is delivered to it
// any more, no goodbye is sent; unless a new instance of the node announces
// within the record's time-to-live (120 s) the others then see it disappear.
func (e *ether) kill(p *etherProvider) {
	e.mu.Lock()
	for i, q := range e.provs {
		if q == p {
			e.provs = append(e.provs[:i:i], e.provs[i+1:]...)
			break
		}
	}
	e.mu.Unlock()
	p.mu.Lock()
	p.started = false
	ann := p.announced
	it := p.itemLocked(true)
	p.mu.Unlock()
	if !ann {
		return
	}
	e.x.S.After(120*time.Second, "mdns-ttl "+p.node, "", func() {
		e.mu.Lock()
		provs := append([]*etherProvider(nil), e.provs...)
		e.mu.Unlock()
		for _, q := range provs {
			q.mu.Lock()
			again := q.node == p.node && q.announced
			q.mu.Unlock()
			if again {
				return
			}
		}
		for _, q := range provs {
			e.send(q, it)
		}
	})
}

// resync models what real mDNS does after an outage: periodic queries and
// re-announcements make every listener learn the current announcements again.
func (e *ether) resync() {
	e.mu.Lock()
	provs := append([]*etherProvider(nil), e.provs...)
	e.mu.Unlock()
	for _, p := range provs {
		p.mu.Lock()
		ann := p.announced
		it := p.itemLocked(false)
		p.mu.Unlock()
		if !ann {
			continue
		}
		for _, q := range provs {
			if q != p {
				e.send(q, it)
			}
		}
	}
}

func (e *ether) others(p *etherProvider) []*etherProvider {
	e.mu.Lock()
	defer e.mu.Unlock()
	var out []*etherProvider
	for _, q := range e.provs {
		if q != p {
			out = append(out, q)
		}
	}
	return out
}

func (p *etherProvider) item(remove bool) etherItem {
	p.mu.Lock()
	defer p.mu.Unlock()
	return p.itemLocked(remove)
}

func (p *etherProvider) itemLocked(remove bool) etherItem {
	addrs := []net.IP{p.ip}
	if p.ip6 != nil {
		addrs = []net.IP{p.ip6, p.ip} // IPv6 first: the hub sorts IPv4 to the front
	}
	return etherItem{txt: append([]string(nil), p.txt...), name: p.name, host: p.node + ".local", addrs: addrs, port: p.port, remove: remove}
}

// hideFrom makes the announcements of node `who` invisible to node `viewer`.
func (e *ether) hideFrom(viewer, who string) {
	e.mu.Lock()
	if e.hidden == nil {
		e.hidden = map[string]bool{}
	}
	e.hidden[viewer+"<"+who] = true
	e.mu.Unlock()
}

// send schedules the delivery of it to q.
func (e *ether) send(q *etherProvider, it etherItem) {
	e.mu.Lock()
	hid := e.hidden[q.node+"<"+strings.TrimSuffix(it.host, ".local")]
	e.mu.Unlock()
	if hid {
		return
	}
	if e.Down.Load() {
		e.x.S.Fault("mdns-lost")
		return
	}
	what := "add"
	if it.remove {
		what = "remove"
	}
	if e.Duplicates && e.x.S.ChooseBiased("mdns-dup", 4, 0.7) == 1 {
		// multicast answers are repeated: the same item once more, a little later
		e.x.S.Fault("mdns-duplicate")
		e.x.S.After(e.Delay()+50*time.Millisecond, fmt.Sprintf("mdns %s %s -> %s (dup)", what, it.name, q.node), "mdns:"+q.node, func() {
			q.mu.Lock()
			if q.started {
				q.queue = append(q.queue, it)
			}
			q.mu.Unlock()
			select {
			case q.wake <- struct{}{}:
			default:
			}
		})
	}
	e.x.S.After(e.Delay(), fmt.Sprintf("mdns %s %s -> %s", what, it.name, q.node), "mdns:"+q.node, func() {
		q.mu.Lock()
		if !q.started {
			q.mu.Unlock()
			return
		}
		q.queue = append(q.queue, it)
		q.mu.Unlock()
		select {
		case q.wake <- struct{}{}:
		default:
		}
	})
}

func (p *etherProvider) Start(autoReconnect bool, cb api.MdnsResolveCB) bool {
	p.mu.Lock()
	p.cb = cb
	p.started = true
	startTask := !p.task
	p.task = true
	select {
	case <-p.startedCh:
	default:
		close(p.startedCh)
	}
	p.mu.Unlock()
	if startTask {
		// one delivery goroutine per provider, as in both real providers
		simrt.Go("ether", func() {
			for {
				simrt.Recv("ether-wake", p.wake)
				for {
					p.mu.Lock()
					if len(p.queue) == 0 || !p.started {
						p.mu.Unlock()
						break
					}
					it := p.queue[0]
					p.queue = p.queue[1:]
					cb := p.cb
					p.mu.Unlock()
					cb(parseTxtList(it.txt), it.name, it.host, it.addrs, it.port, it.remove)
				}
			}
		})
	}
	// learn what is already announced
	for _, q := range p.eth.others(p) {
		q.mu.Lock()
		ann := q.announced
		it := q.itemLocked(false)
		q.mu.Unlock()
		if ann {
			p.eth.send(p, it)
		}
	}
	return true
}

func (p *etherProvider) Shutdown() {
	p.mu.Lock()
	p.started = false
	p.mu.Unlock()
}

func (p *etherProvider) Announce(serviceName string, port int, txt []string) error {
	p.mu.Lock()
	p.announced = true
	p.name, p.port, p.txt = serviceName, port, append([]string(nil), txt...)
	it := p.itemLocked(false)
	p.mu.Unlock()
	p.eth.x.Ev("mdns-announce", p.node, strings.Join(txt, ";"), port)
	for _, q := range p.eth.others(p) {
		p.eth.send(q, it)
	}
	return nil
}

func (p *etherProvider) Unannounce() {
	p.mu.Lock()
	was := p.announced
	p.announced = false
	it := p.itemLocked(true)
	p.mu.Unlock()
	if !was {
		return
	}
	p.eth.x.Ev("mdns-unannounce", p.node, "", 0)
	for _, q := range p.eth.others(p) {
		p.eth.send(q, it)
	}
}

func parseTxtList(txt []string) map[string]string {
	m := map[string]string{}
	for _, t := range txt {
		if i := strings.IndexByte(t, '='); i >= 0 {
			m[t[:i]] = t[i+1:]
		}
	}
	return m
}

// ---------------------------------------------------------------- application stub

type recApp struct {
	// inPairingCB, if set, runs inside every delayed ServicePairingDetailUpdate
	inPairingCB func(ski string, state int)
	x           *Ctx
	node        string
	rig         *hubRig

	mu           sync.Mutex
	writers      map[string]api.ShipConnectionDataWriterInterface
	allowWaiting bool
	echo         bool
	lastVisible  []string
}

func (a *recApp) RemoteSKIConnected(ski string) { a.x.Ev("app-connected", a.node, ski, 0) }
func (a *recApp) RemoteSKIDisconnected(ski string) {
	a.x.Ev("app-disconnected", a.node, ski, 0)
}
func (a *recApp) SetupRemoteDevice(ski string, w api.ShipConnectionDataWriterInterface) api.ShipConnectionDataReaderInterface {
	a.x.Ev("app-setup", a.node, ski, 0)
	a.mu.Lock()
	a.writers[ski] = w
	a.mu.Unlock()
	return &appReader{a: a, ski: ski, w: w}
}
func (a *recApp) VisibleRemoteServicesUpdated(entries []api.RemoteService) {
	var skis []string
	var full []string
	for _, e := range entries {
		skis = append(skis, e.Ski)
		full = append(full, fmt.Sprintf("%s/%s/%s/%s/%s/%s/%v", e.Ski, e.Identifier, e.Brand, e.Model, e.Type, e.Serial, e.Categories))
	}
	sort.Strings(skis)
	sort.Strings(full)
	a.mu.Lock()
	a.lastVisible = full
	a.mu.Unlock()
	a.x.Ev("app-visible", a.node, strings.Join(skis, ","), len(entries))
}
func (a *recApp) ServiceShipIDUpdate(ski string, id string) {
	a.x.Ev("app-shipid", a.node, ski+"="+id, 0)
}
func (a *recApp) ServicePairingDetailUpdate(ski string, d *api.ConnectionStateDetail) {
	kind := "direct"
	if l := simrt.CurrentLabel(); strings.Contains(l[strings.LastIndex(l, "/")+1:], "hub_shipconnection.go:") {
		kind = "delayed"
	}
	seq := 0
	if a.rig != nil {
		a.rig.pmu.Lock()
		if kind == "delayed" {
			seq = a.rig.prod[d]
		} else {
			seq = a.rig.prodSeq
		}
		a.rig.pmu.Unlock()
	}
	a.x.Ev("app-pairing", a.node, ski+"|"+kind, int(d.State())*1000000+seq)
	if f := a.inPairingCB; f != nil && kind == "delayed" {
		// what a real application does here: persist, ask the user, approve
		f(ski, int(d.State()))
	}
}
func (a *recApp) AllowWaitingForTrust(ski string) bool {
	a.mu.Lock()
	defer a.mu.Unlock()
	return a.allowWaiting
}

func (a *recApp) writer(ski string) api.ShipConnectionDataWriterInterface {
	a.mu.Lock()
	defer a.mu.Unlock()
	return a.writers[ski]
}

type appReader struct {
	a   *recApp
	ski string
	w   api.ShipConnectionDataWriterInterface
}

func (r *appReader) HandleShipPayloadMessage(b []byte) {
	r.a.x.Ev("app-payload", r.a.node, r.ski, datagramID(b))
}

// ---------------------------------------------------------------- hub node

type hubNode struct {
	rig   *hubRig
	name  string
	ip    string
	ip6   string
	port  int
	cert  tls.Certificate
	ski   string
	hub   *hub.Hub
	mdns  *mdns.MdnsManager
	app   *recApp
	prov  *etherProvider
	ready chan struct{}
	gen   int // process instance number (restarts)
	// crashed: the current instance was killed and no new one has been started
	crashed bool
}

// group names the current process instance of the node (simrt task group).
func (n *hubNode) group() string { return fmt.Sprintf("%s#%d", n.name, n.gen) }

type hubRig struct {
	x     *Ctx
	eth   *ether
	nodes map[string]*hubNode
	order []string

	pmu     sync.Mutex
	prodSeq int
	prod    map[*api.ConnectionStateDetail]int // production order of pairing details
	connIDs map[any]int
	// dualStack: every node announces [IPv6, IPv4]; hostUnresolvable: the
	// announced .local host name does not resolve, the hub falls back to the
	// addresses (which it sorts IPv4 first)
	dualStack, hostUnresolvable bool
	// atRegister, if set, runs at the k-th entry into Hub.registerConnection (on
	// the registering task): a place for a fault between "connection object
	// created, pumps running" and "connection registered"
	atRegister    func(node string, k int)
	registrations int
	provBySKI     map[string]*etherProvider
}

func (r *hubRig) connID(c any) int {
	r.pmu.Lock()
	defer r.pmu.Unlock()
	if id, ok := r.connIDs[c]; ok {
		return id
	}
	id := len(r.connIDs) + 1
	r.connIDs[c] = id
	return id
}

func (r *hubRig) probe(name string, args []any) {
	node := nodeOfLabel(simrt.CurrentLabel())
	switch name {
	case "api.ServiceDetails.SetConnectionStateDetail":
		sd, _ := args[0].(*api.ServiceDetails)
		d, _ := args[1].(*api.ConnectionStateDetail)
		if sd == nil || d == nil {
			return
		}
		r.pmu.Lock()
		r.prodSeq++
		seq := r.prodSeq
		r.prod[d] = seq
		r.pmu.Unlock()
		r.x.Ev("pairing-produced", node, sd.SKI(), int(d.State())*1000000+seq)
	case "hub.Hub.initateConnection":
		if sd, ok := args[1].(*api.ServiceDetails); ok && sd != nil {
			r.x.Ev("attempt", node, r.skiName(sd.SKI()), 0)
		}
	case "hub.Hub.registerConnection":
		// the pumps of this connection are already running, it is not yet in the registry
		r.pmu.Lock()
		r.registrations++
		k := r.registrations
		f := r.atRegister
		r.pmu.Unlock()
		r.x.Ev("hub-register", node, "", k)
		if f != nil {
			f(node, k)
		}
	case "ship.ShipConnection.CloseConnection":
		if conn, ok := args[0].(api.ShipConnectionInterface); ok && conn != nil {
			r.x.Ev("close-entered", node, fmt.Sprintf("conn%d", r.connID(conn)), 0)
		}
	case "hub.Hub.HandleConnectionClosed":
		completed, _ := args[2].(bool)
		c := 0
		if completed {
			c = 1
		}
		if conn, ok := args[1].(api.ShipConnectionInterface); ok && conn != nil {
			r.x.Ev("hub-closed", node, fmt.Sprintf("conn%d", r.connID(conn)), c)
		}
	}
}

func nodeOfLabel(l string) string {
	l = strings.TrimPrefix(l, "~")
	if i := strings.IndexByte(l, ':'); i > 0 {
		return l[:i]
	}
	return "?"
}

func newHubRig(x *Ctx) *hubRig {
	r := &hubRig{x: x, eth: newEther(x), nodes: map[string]*hubNode{}, prod: map[*api.ConnectionStateDetail]int{}, connIDs: map[any]int{}, provBySKI: map[string]*etherProvider{}}
	if x.Feat(FeatNetVariety) && x.Spec.Prop != "C20" {
		r.eth.Duplicates = x.Chance("mdns-duplicates", 0.25)
	}
	if x.forceDual {
		r.dualStack, r.hostUnresolvable = true, x.forceHostUnres
	} else if x.Feat(FeatDualStack) && x.Chance("dual-stack", 0.3) {
		r.dualStack = true
		r.hostUnresolvable = x.Chance("host-unresolvable", 0.6)
	}
	if r.dualStack && x.Spec.Prop == "C20" {
		// race check only: the medium repeats all announcements frequently, so that
		// entries of known services are processed while connection attempts run
		gap := []time.Duration{20 * time.Millisecond, 100 * time.Millisecond, 700 * time.Millisecond}[x.Choose("mdns-churn-gap", 3)]
		x.Go("X:churn", func() {
			for i := 0; i < 300; i++ {
				simrt.Sleep(gap)
				r.eth.resync()
			}
		})
	}
	hook := r.probe
	simrt.ProbeHook.Store(&hook)
	x.Net.OnDial = func(from, to, addr string) { x.Ev("dial", from, to, 0) }
	mdns.VerifZeroconfFactory = func(m *mdns.MdnsManager, _ []net.Interface) api.MdnsProviderInterface {
		r.pmu.Lock()
		p := r.provBySKI[m.VerifSKI()]
		r.pmu.Unlock()
		if p != nil {
			return p
		}
		return &nullProvider{}
	}
	return r
}

// addNode prepares a node; create() must then be called from a task of that node.
func (r *hubRig) addNode(name string) *hubNode {
	idx := len(r.order) + 1
	n := &hubNode{rig: r, name: name, ip: fmt.Sprintf("10.0.0.%d", idx), port: 4710 + idx, ready: make(chan struct{})}
	n.app = &recApp{x: r.x, node: name, rig: r, writers: map[string]api.ShipConnectionDataWriterInterface{}, allowWaiting: true}
	r.nodes[name] = n
	r.order = append(r.order, name)
	if r.dualStack {
		n.ip6 = fmt.Sprintf("fd00::%d", idx)
		r.x.Net.AddHost(name, n.ip6)
	}
	if r.hostUnresolvable {
		r.x.Net.AddHost(name, n.ip)
	} else {
		r.x.Net.AddHost(name, name+".local", n.ip)
	}
	return n
}

// create builds certificate, mDNS manager and hub (inside the calling task).
func (n *hubNode) create() {
	simrt.SetGroup(n.group())
	c := n.cert
	if n.gen == 0 {
		var err error
		c, err = cert.CreateCertificate("unit", "org", "DE", "cn-"+n.name)
		if err != nil {
			n.rig.x.HarnessError("certificate: " + err.Error())
			return
		}
	}
	if n.gen == 0 {
		// certificate and SKI survive a restart: written once
		n.cert = c
		leaf, err := x509.ParseCertificate(c.Certificate[0])
		if err != nil {
			n.rig.x.HarnessError("certificate parse: " + err.Error())
			return
		}
		n.ski, err = cert.SkiFromCertificate(leaf)
		if err != nil {
			n.rig.x.HarnessError("ski: " + err.Error())
			return
		}
	}
	n.prov = n.rig.eth.provider(n.name, n.ip, n.ip6)
	n.rig.pmu.Lock()
	n.rig.provBySKI[n.ski] = n.prov
	n.rig.pmu.Unlock()
	n.mdns = mdns.NewMDNS(n.ski, "brand-"+n.name, "model", "type", "serial-"+n.name, []api.DeviceCategoryType{1}, "SHIPID-"+n.name, "svc-"+n.name, n.port, nil, mdns.MdnsProviderSelectionGoZeroConfOnly)
	local := api.NewServiceDetails(n.ski)
	local.SetShipID("SHIPID-" + n.name)
	local.SetDeviceType("type")
	n.hub = hub.NewHub(n.app, n.mdns, n.port, n.cert, local)
	n.rig.x.Ev("node-created", n.name, n.ski, n.port)
	if n.gen == 0 {
		close(n.ready)
	}
}

// crash kills the current process instance of the node: its goroutines never
// run again, its listener is gone, its connections are reset (rst: the process
// was killed, the operating system closes its sockets) or just go silent (power
// loss). Its mDNS announcement stays in the caches of the others until the
// record's time-to-live runs out or a new instance announces again.
func (n *hubNode) crash(rst bool) {
	x := n.rig.x
	g := n.group()
	x.Ev("crash", n.name, fmt.Sprintf("rst=%v", rst), n.gen)
	n.crashed = true
	x.S.Freeze(g)
	x.Net.CrashGroup(g, rst)
	n.rig.eth.kill(n.prov)
}

// restart brings up a new process instance with the same certificate, port and
// application; the application registers the given peers again (pairing is the
// application's persistent state). Runs in a task of the new instance.
func (n *hubNode) restart(peers ...*hubNode) {
	n.gen++
	n.crashed = false
	done := make(chan struct{})
	n.rig.x.Go(fmt.Sprintf("%s:restart%d", n.name, n.gen), func() {
		defer close(done)
		n.create()
		for _, p := range peers {
			n.hub.RegisterRemoteSKI(p.ski)
			n.rig.x.Ev("op-register", n.name, p.name, 0)
		}
		n.hub.Start()
		n.rig.x.Ev("op-start", n.name, "restart", n.gen)
	})
	simrt.Recv("restart-done", done)
}

func (r *hubRig) node(name string) *hubNode { return r.nodes[name] }

// skiName maps a SKI back to the node name (for readable logs).
func (r *hubRig) skiName(ski string) string {
	for _, n := range r.nodes {
		if n.ski == ski {
			return n.name
		}
	}
	return ski
}

// spell returns the SKI as a user might type it from a device label (upper case, blanks,
// dashes) - in a fifth of the calls of runs that have the feature, otherwise unchanged.
func (r *hubRig) spell(ski string) string { return r.spellP(ski, 0.2) }

// spellP is spell with the share of calls that get the label spelling.
func (r *hubRig) spellP(ski string, p float64) string {
	if !r.x.Feat(FeatMoreInputs) || !r.x.Chance("ski-spelling", p) {
		return ski
	}
	r.x.Probe("label-spelling-of-ski")
	var b strings.Builder
	for i, c := range ski {
		if i > 0 && i%4 == 0 {
			b.WriteByte(' ')
		}
		b.WriteString(strings.ToUpper(string(c)))
	}
	return b.String()
}

// cutNewest resets the most recently established transport connection of node.
func (r *hubRig) cutNewest(node string) {
	var newest *simnet.Conn
	for _, cn := range r.x.Net.Conns() {
		if cn.Node() == node && !cn.Closed() && !cn.Broken() && (newest == nil || cn.ID() > newest.ID()) {
			newest = cn
		}
	}
	if newest != nil {
		newest.Cut()
	}
}

// spawn runs f as a task of node n's current process instance without waiting
// for it.
func (n *hubNode) spawn(what string, f func()) {
	g := n.group()
	n.rig.x.Go(n.name+":"+what, func() {
		simrt.SetGroup(g)
		f()
	})
}

// on runs f as a task of node n (so that goroutines the hub spawns from it are
// attributed to that node) and waits for it to return.
func (n *hubNode) on(what string, f func()) {
	done := make(chan struct{})
	n.rig.x.Go(n.name+":"+what, func() {
		defer close(done)
		simrt.SetGroup(n.group())
		f()
	})
	simrt.Recv("op-done", done)
}
