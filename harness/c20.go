//go:build verif

package harness

import (
	"time"
)

func init() {
	register(&Scenario{Prop: "C20", Horizon: 20 * time.Minute, Steps: 15000, Setup: setupC20, Parallel: 0.35, IgnoreViolations: true})
}

// setupC20 runs the hub, mDNS and Avahi workloads of the other checks in
// "parallel round" mode under the Go race detector: the scheduler releases
// several tasks at once, so unsynchronised accesses of ship-go code running in
// different goroutines are concurrent for the detector. The oracle is the
// detector's report (collected by verifctl from the GORACE log), nothing else.
func setupC20(x *Ctx) {
	kinds := []string{"C10", "C05", "C11hub", "C18", "C17", "C19", "C10", "C05"}
	k := Pick(x, "workload", kinds)
	x.SigAdd("workload=" + k)
	switch k {
	case "C05":
		setupC05(x)
	case "C10":
		setupC10(x)
	case "C11hub":
		setupC11Hub(x)
	case "C18":
		setupC18(x)
	case "C17":
		setupC17(x)
	case "C19":
		setupC19(x)
	}
	x.NonTrivial()
}
