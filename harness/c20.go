//go:build verif

package harness

import (
	"time"

	"verif/simrt"
)

func init() {
	register(&Scenario{Prop: "C20", Horizon: 20 * time.Minute, Steps: 15000, Setup: setupC20, Parallel: 0.35, IgnoreViolations: true})
}

// setupC20 runs the hub, mDNS and Avahi workloads of the other checks in
// "parallel round" mode under the Go race detector: the scheduler releases
// several tasks at once, so unsynchronised accesses of ship-go code running in
// different goroutines are concurrent for the detector. The oracle is the
// detector's report (collected by verifctl from the GORACE log), nothing else.
func setupC20(x *Ctx) {
	kinds := []string{"C10", "C05", "C11hub", "C18", "C17", "C19", "C10", "C05"}
	if x.Feat(FeatDualStack) {
		kinds = append(kinds, "unreachable-peer")
	}
	if x.Feat(FeatRaceWs) {
		// writers, pumps and closes on one websocket connection (cheap runs, many rounds)
		kinds = append(kinds, "C12", "C13", "C12")
	}
	k := Pick(x, "workload", kinds)
	x.SigAdd("workload=" + k)
	switch k {
	case "C05":
		setupC05(x)
	case "C10":
		setupC10(x)
	case "C11hub":
		setupC11Hub(x)
	case "C18":
		setupC18(x)
	case "C17":
		setupC17(x)
	case "C19":
		setupC19(x)
	case "unreachable-peer":
		c20UnreachablePeer(x)
	case "C12":
		setupC12(x)
	case "C13":
		x.Spec.Variant = Pick(x, "c13-variant", []string{"lc1", "lc0", "none", "w3", "r4", "pc1000", "cut", "wo2"})
		setupC13(x)
	}
	x.NonTrivial()
}

// c20UnreachablePeer: hub A has registered B; B is announced (IPv6 and IPv4
// address, host name that does not resolve) but nothing listens there, and its
// announcement is repeated all the time: connection attempts (which walk and
// sort the reported addresses) overlap with the processing of mDNS items for
// the same service.
func c20UnreachablePeer(x *Ctx) {
	x.SetFeatForRig(true, true)
	r := newHubRig(x)
	a, b := r.addNode("A"), r.addNode("B")
	x.Go("B:start", func() {
		b.create()
		// B's hub is never started: only its announcement exists
		_ = b.prov.Announce("svc-B", b.port, []string{"txtvers=1", "path=/ship/", "id=SHIPID-B", "ski=" + b.ski, "register=false", "brand=b", "model=m", "type=t"})
	})
	// ... while a reachable, mutually paired peer C keeps connecting and being dropped:
	// registrations and removals in A's connection registry during A's failing attempts
	c := r.addNode("C")
	x.Go("C:start", func() {
		c.create()
		simrt.Recv("a", a.ready)
		c.hub.RegisterRemoteSKI(a.ski)
		c.hub.Start()
		for i := 0; i < 60; i++ {
			simrt.Sleep(time.Duration(100+100*x.Choose("churn-gap", 5)) * time.Millisecond)
			c.hub.DisconnectSKI(a.ski, "churn")
		}
	})
	x.Go("A:start", func() {
		a.create()
		simrt.Recv("b", b.ready)
		simrt.Recv("c", c.ready)
		a.hub.RegisterRemoteSKI(b.ski)
		a.hub.RegisterRemoteSKI(c.ski)
		a.hub.Start()
	})
	x.Go("X:end", func() {
		simrt.Sleep(40 * time.Second)
		x.S.Stop("done")
	})
}
