//go:build verif

// Package harness contains the simulation engines and oracles. It is compiled
// as a test binary (testing/synctest needs *testing.T) against the
// instrumented ship-go tree (cmd/simgen + -overlay).
package harness

import (
	"fmt"
	mrandv1 "math/rand"
	"os"
	"runtime"
	"sort"
	"strings"
	"sync"
	"testing"
	"testing/cryptotest"
	"testing/synctest"
	"time"

	"verif/simnet"
	"verif/simrt"
)

// RunSpec describes one simulated execution.
type RunSpec struct {
	Prop      string `json:"prop"`
	Seed      uint64 `json:"seed"`
	Replay    []int  `json:"replay,omitempty"` // non-nil => replay mode
	MaxSteps  int    `json:"max_steps,omitempty"`
	KeepTrace bool   `json:"keep_trace,omitempty"`
	Variant   string `json:"variant,omitempty"` // engine specific (e.g. enumeration index)
	Tier      string `json:"tier,omitempty"`
	// Feat is the set of harness features this run was recorded with (bit set,
	// see Feat* constants). Every draw or schedule point added to the harness
	// after tapes had been recorded is gated by a feature bit, so that a tape
	// keeps meaning what it meant: new runs get FeatAll, a replay file carries
	// the set it was found with.
	Feat int `json:"feat,omitempty"`
	// Stalls turns on the stalled-goroutine fault for this run (set by the
	// search loop for a fixed share of the runs; part of the replay file)
	Stalls bool `json:"stalls,omitempty"`
}

// Harness features added after the first regression tapes were recorded.
const (
	FeatNetWriteYield  = 1       // optional schedule point at the beginning of a transport write
	FeatCutAtRegister  = 2       // C05 / C11 hub: reset placed at Hub.registerConnection
	FeatEarlyResolve   = 4       // C17: services resolved while Start is still running
	FeatCrash          = 8       // C05 / C11 hub: process crash and restart disturbances
	FeatLateRun        = 16      // SHIP2 / hub rig: Run() of a connection delayed after its creation (reader already active)
	FeatWithdrawInDial = 32      // C01 hub: the stored pairing is withdrawn while the hub's own dial is in flight
	FeatAppInCallback  = 64      // C18: the application works (sleeps, approves the pairing) inside ServicePairingDetailUpdate
	FeatDualStack      = 128     // hub rig: services announce an IPv6 and an IPv4 address, the .local host name may not resolve
	FeatPartition      = 256     // C05: partition that heals (everything sent meanwhile arrives when it ends)
	FeatHelloMatrix    = 512     // C08: hello member combinations delivered in the hello listen states, drawn uniformly
	FeatRaceWs         = 1024    // C20: the websocket workloads of C12 / C13 under the race detector
	FeatTransportStall = 2048    // C06 / C12 pair engines: the sending direction of one endpoint stalls for a while
	FeatTimerTies      = 4096    // C14: re-arm / stop placed exactly at the expiry instant of the running timer
	FeatMdnsRequests   = 8192    // C17: the hub asks for the known entries (RequestMdnsEntries) while resolver events come in
	FeatLatePairing    = 16384   // C09 hub: a first connection is lost while the service is not yet trusted, pairing and a second connection follow
	FeatRelayAdversary = 32768   // C02 outbound: the adversary relays the first connection to the genuine device, cuts it and answers the retry itself
	FeatNetVariety     = 65536   // short reads (segments split), duplicated mDNS items, write-stall disturbances
	FeatPairingTies    = 131072  // C10: the peer's approval reaches a hub at the instant its user unregisters / cancels
	FeatQuickRetry     = 262144  // C18: the application calls the pairing API within 500 ms of a handshake state change
	FeatEventOrder     = 524288  // events due at the same instant are ordered by queue, not by creation
	FeatMoreInputs     = 1048576 // C12: several closing events in a row; C06: large datagrams; C04: hello matrix; C10/C01 hub: user passes label spellings of SKIs
	FeatChildFirst     = 2097152 // scheduler: at a go statement the new goroutine may run before the spawning one continues (in half of the runs, for 5% or 30% of the go statements)
	FeatSpawnLast      = 4194304 // scheduler: a new goroutine may get the lowest priority (a quarter of the runs, 10% of the go statements)
	FeatAll            = 8388607
)

// SetFeatForRig forces the dual-stack options of the next hub rig (workloads
// that are about exactly that).
func (x *Ctx) SetFeatForRig(dual, hostUnresolvable bool) {
	x.forceDual, x.forceHostUnres = dual, hostUnresolvable
}

// Feat reports whether the run uses harness feature bit.
func (x *Ctx) Feat(bit int) bool { return x.Spec.Feat&bit != 0 }

// Violation is what an oracle reports.
type Violation struct {
	Prop      string `json:"prop"`
	Clause    string `json:"clause"`    // oracle clause id
	Signature string `json:"signature"` // clause + stable discriminator (used for known findings)
	Detail    string `json:"detail"`
	Step      int    `json:"step"`
}

// RunResult is what one execution produced.
type RunResult struct {
	Spec      RunSpec `json:"spec"`
	Outcome   string  `json:"outcome"` // ok | violation | abandoned
	EndReason string  `json:"end_reason"`
	// TeardownLeak: goroutines stayed blocked in un-instrumented code after the
	// run had been judged (end-of-bubble deadlock panic recovered)
	TeardownLeak bool           `json:"teardown_leak,omitempty"`
	Violations   []Violation    `json:"violations,omitempty"`
	Tape         []int          `json:"tape,omitempty"`
	Hash         uint64         `json:"hash"`
	Steps        int            `json:"steps"`
	SimTimeMs    int64          `json:"sim_ms"`
	Preempt      int            `json:"preemptions"`
	Faults       map[string]int `json:"faults,omitempty"`
	Probes       map[string]int `json:"probes,omitempty"`
	Sites        map[string]int `json:"sites,omitempty"`
	NonTrivial   bool           `json:"nontrivial"`
	Sig          string         `json:"sig"` // behaviour signature (for distinct counting)
	Sample       any            `json:"sample,omitempty"`
	TwinLog      []string       `json:"twin_log,omitempty"`
	Trace        []string       `json:"trace,omitempty"`
	Panics       []string       `json:"panics,omitempty"`
	Blocked      []string       `json:"blocked,omitempty"`
	HarnessErr   string         `json:"harness_err,omitempty"`
	WallUs       int64          `json:"wall_us"`
}

// Event is one recorded observation.
type Event struct {
	Seq  int
	T    time.Duration
	Kind string
	A    string
	B    string
	N    int
	Task string // label of the task that recorded the observation
}

// Ctx is the per-run context handed to a scenario.
type Ctx struct {
	forceDual, forceHostUnres bool
	S                         *simrt.Sched
	Net                       *simnet.Net
	Spec                      RunSpec
	T                         *testing.T

	mu         sync.Mutex
	events     []Event
	seq        int
	viol       []Violation
	probes     map[string]int
	sigParts   []string
	nonTrivial bool
	sample     any
	invariants []func() *Violation
	finals     []func()
	harnessErr string
	twinLog    []string
}

// Ev records an observation (also hashed into the event log).
func (x *Ctx) Ev(kind, a, b string, n int) int {
	x.mu.Lock()
	x.seq++
	e := Event{Seq: x.seq, T: x.S.Now(), Kind: kind, A: a, B: b, N: n, Task: simrt.CurrentLabel()}
	x.events = append(x.events, e)
	x.mu.Unlock()
	x.S.Logf("obs %s %s %s %d", kind, a, b, n)
	return e.Seq
}

func (x *Ctx) Events() []Event {
	x.mu.Lock()
	defer x.mu.Unlock()
	return append([]Event(nil), x.events...)
}

// Violate records a violation and stops the run.
func (x *Ctx) Violate(clause, discr, detail string) {
	x.mu.Lock()
	sig := clause
	if discr != "" {
		sig += ":" + discr
	}
	x.viol = append(x.viol, Violation{Prop: x.Spec.Prop, Clause: clause, Signature: sig, Detail: detail, Step: x.S.Step()})
	x.mu.Unlock()
	x.S.Logf("VIOLATION %s %s", sig, detail)
	x.S.Stop("violation")
}

func (x *Ctx) HarnessError(msg string) {
	x.mu.Lock()
	if x.harnessErr == "" {
		x.harnessErr = msg
	}
	x.mu.Unlock()
	x.S.Stop("harness-error")
}

// Probe counts that a rare condition was reached.
func (x *Ctx) Probe(name string) {
	x.mu.Lock()
	x.probes[name]++
	x.mu.Unlock()
}

// SigAdd adds a component to the behaviour signature of the run.
func (x *Ctx) SigAdd(parts ...string) {
	x.mu.Lock()
	x.sigParts = append(x.sigParts, parts...)
	x.mu.Unlock()
}

func (x *Ctx) NonTrivial()                           { x.mu.Lock(); x.nonTrivial = true; x.mu.Unlock() }
func (x *Ctx) SetSample(v any)                       { x.mu.Lock(); x.sample = v; x.mu.Unlock() }
func (x *Ctx) OnFinal(f func())                      { x.finals = append(x.finals, f) }
func (x *Ctx) Go(label string, f func()) *simrt.Task { return x.S.GoTask(label, f) }

// Draw helpers (workload generation from the tape)
func (x *Ctx) Choose(kind string, n int) int             { return x.S.Choose(kind, n) }
func (x *Ctx) Chance(kind string, p float64) bool        { return x.S.Chance(kind, p) }
func (x *Ctx) Biased(kind string, n int, p0 float64) int { return x.S.ChooseBiased(kind, n, p0) }
func Pick[T any](x *Ctx, kind string, opts []T) T        { return opts[x.S.Choose(kind, len(opts))] }
func PickB[T any](x *Ctx, kind string, p0 float64, opts []T) T {
	return opts[x.S.ChooseBiased(kind, len(opts), p0)]
}

// Scenario is one property's workload + oracles.
type Scenario struct {
	// NoStalls: the scenario's oracle bounds reaction times in the millisecond
	// range, so goroutines must not be descheduled arbitrarily
	NoStalls bool
	Prop     string
	Horizon  time.Duration
	Steps    int
	// Setup runs on the scheduler goroutine: create stubs, spawn tasks. It must
	// not call instrumented code directly.
	Setup func(x *Ctx)
	// PanicIsViolation: a panic in library code violates this property.
	PanicIsViolation bool
	// Parallel: probability of a parallel round (C20 only); IgnoreViolations:
	// the oracles of the embedded workloads are not this property's business.
	Parallel         float64
	IgnoreViolations bool
	// Twin: the scenario is executed twice with identical choices (variant ""
	// and variant "fmt") and the two observation logs must be equal (C15).
	Twin bool
}

var scenarios = map[string]*Scenario{}

func register(sc *Scenario) { scenarios[sc.Prop] = sc }

// Execute runs one simulation (for twin scenarios: the canonical run and, with
// the very same choices, the re-formatted run; their logs must be equal).
func Execute(t *testing.T, spec RunSpec) RunResult {
	sc := scenarios[spec.Prop]
	if sc == nil || !sc.Twin || spec.Variant == "fmt" {
		return execute1(t, spec)
	}
	a := execute1(t, spec)
	if a.Outcome != "ok" {
		return a
	}
	s2 := spec
	s2.Variant = "fmt"
	s2.Replay = a.Tape
	if s2.Replay == nil {
		s2.Replay = []int{}
	}
	s2.KeepTrace = false
	b := execute1(t, s2)
	if b.Outcome == "abandoned" {
		a.Outcome, a.HarnessErr = "abandoned", "twin run: "+b.HarnessErr
		return a
	}
	if d := diffLogs(a.TwinLog, b.TwinLog); d != "" {
		a.Outcome = "violation"
		a.Violations = append(a.Violations, Violation{Prop: spec.Prop, Clause: "formatting-changes-behaviour", Signature: "formatting-changes-behaviour:" + twinDiscr(a.TwinLog, b.TwinLog), Detail: d, Step: a.Steps})
		if m, ok := a.Sample.(map[string]any); ok {
			if mb, ok := b.Sample.(map[string]any); ok {
				m["spellings_used"] = mb["spellings_used"]
			}
		}
	}
	a.TwinLog = nil
	return a
}

func diffLogs(a, b []string) string {
	for i := 0; i < len(a) || i < len(b); i++ {
		var la, lb string
		if i < len(a) {
			la = a[i]
		}
		if i < len(b) {
			lb = b[i]
		}
		if la != lb {
			return fmt.Sprintf("same scenario, same schedule: with canonical SKIs the observation #%d is %q, with re-formatted SKIs it is %q", i, la, lb)
		}
	}
	return ""
}

// twinDiscr names the operation after which the logs first differ.
func twinDiscr(a, b []string) string {
	last := "setup"
	for i := 0; i < len(a) && i < len(b); i++ {
		if a[i] != b[i] {
			break
		}
		if strings.HasPrefix(a[i], "op: ") {
			last = a[i][4:]
		}
	}
	return "after-" + last
}

func execute1(t *testing.T, spec RunSpec) (res RunResult) {
	res.Spec = spec
	sc := scenarios[spec.Prop]
	if sc == nil {
		res.Outcome = "abandoned"
		res.HarnessErr = "unknown property " + spec.Prop
		return
	}
	t0 := time.Now()
	cryptotest.SetGlobalRandom(t, spec.Seed*2654435761+12345)
	// gorilla/websocket draws its client mask keys from the global math/rand
	// source (needs GODEBUG=randseednop=0, set in worker_test.go)
	mrandv1.Seed(int64(spec.Seed))
	// real-time watchdog (outside the bubble): a run that makes no progress for
	// 300 s of wall time is a harness defect (e.g. a non-durable block inside a
	// dependency); dump all stacks and give up - never reported as a violation
	wd := time.AfterFunc(300*time.Second, func() {
		buf := make([]byte, 1<<20)
		n := runtime.Stack(buf, true)
		fmt.Fprintf(os.Stderr, "WATCHDOG: run prop=%s seed=%d variant=%q did not finish within 300 s of wall time\n%s\n", spec.Prop, spec.Seed, spec.Variant, buf[:n])
		os.Exit(3)
	})
	defer wd.Stop()
	func() {
		defer func() {
			if r := recover(); r != nil {
				// end-of-bubble deadlock panic (goroutines blocked for good in
				// un-instrumented code): the run itself has finished.
				msg := fmt.Sprint(r)
				if !strings.Contains(msg, "deadlock") {
					res.HarnessErr = "panic outside run: " + msg
				}
			}
		}()
		// a sub-test per run: under -race the testing package fails (FailNow) the
		// test in which a race was reported - that must not end the worker
		t.Run("run", func(t *testing.T) {
			defer func() {
				// the end-of-bubble deadlock panic is raised on this goroutine: goroutines
				// blocked for good in un-instrumented code after the run was judged (the
				// verdict in res is complete); they leak, the worker goes on
				if r := recover(); r != nil {
					msg := fmt.Sprint(r)
					if strings.Contains(msg, "deadlock") {
						res.TeardownLeak = true
					} else {
						res.HarnessErr = "panic outside run: " + msg
					}
				}
			}()
			synctest.Test(t, func(t *testing.T) {
				runInBubble(t, sc, spec, &res)
			})
		})
	}()
	res.WallUs = time.Since(t0).Microseconds()
	if res.HarnessErr != "" {
		res.Outcome = "abandoned"
	}
	return
}

func runInBubble(t *testing.T, sc *Scenario, spec RunSpec, res *RunResult) {
	cfg := simrt.Config{Seed: spec.Seed, Replay: spec.Replay, KeepTrace: spec.KeepTrace, Horizon: sc.Horizon, MaxSteps: sc.Steps, Parallel: sc.Parallel, ParallelBudget: 40}
	cfg.EventOrderByQueue = spec.Feat&FeatEventOrder != 0
	if sc.Parallel > 0 {
		// race check: vary how often several tasks are released at once and how far they
		// run before they park again (these runs are not replayable anyway)
		cfg.Parallel = []float64{0.2, 0.35, 0.6, 0.85}[(spec.Seed>>5)%4]
		cfg.ParallelBudget = []int{10, 40, 150, 400}[(spec.Seed>>9)%4]
	}
	if spec.Stalls && sc.Parallel == 0 && !sc.NoStalls {
		cfg.StallProb = 0.004
	}
	if spec.Feat&FeatChildFirst != 0 {
		cfg.ChildFirst = []float64{0.3, 0.05, 0, 0}[(spec.Seed>>14)%4]
	}
	if spec.Feat&FeatSpawnLast != 0 && (spec.Seed>>17)%4 == 0 {
		cfg.SpawnLast = 0.1
	}
	if spec.MaxSteps > 0 && spec.MaxSteps < cfg.MaxSteps {
		// diagnosis only: look at the beginning of a long run
		cfg.MaxSteps = spec.MaxSteps
	}
	s := simrt.New(cfg)
	x := &Ctx{S: s, Spec: spec, T: t, probes: map[string]int{}}
	x.Net = simnet.New(s)
	x.Net.YieldOnWrite = spec.Feat&FeatNetWriteYield != 0
	if spec.Feat&FeatNetVariety != 0 && sc.Parallel == 0 {
		// swarm: in a fifth of the runs every read returns at most half of what is there
		x.Net.ShortReads = s.Chance("short-reads", 0.2)
	}
	s.Install()
	x.Net.Install()
	defer func() {
		if r := recover(); r != nil {
			res.HarnessErr = fmt.Sprintf("harness panic: %v", r)
		}
		simrt.ProbeHook.Store(nil)
		x.Net.CloseAll()
		s.Teardown()
		x.Net.Uninstall()
	}()
	sc.Setup(x)
	reason := s.Run(func() string {
		for _, inv := range x.invariants {
			if v := inv(); v != nil {
				x.mu.Lock()
				x.viol = append(x.viol, *v)
				x.mu.Unlock()
				return "violation"
			}
		}
		return ""
	})
	res.EndReason = reason
	if reason != "violation" && reason != "harness-error" {
		for _, f := range x.finals {
			f()
		}
	}
	for _, p := range s.Panics() {
		res.Panics = append(res.Panics, p.Label+": "+p.Value+"\n"+trimStack(p.Stack))
		if sc.PanicIsViolation {
			fn := topShipFrame(p.Stack)
			x.viol = append(x.viol, Violation{Prop: spec.Prop, Clause: "panic", Signature: "panic:" + classifyPanic(p.Value) + "@" + fn,
				Detail: "task " + p.Label + " panicked: " + p.Value + " in " + fn, Step: p.Step})
		}
	}
	res.Violations = x.viol
	if sc.IgnoreViolations {
		res.Violations = nil
		x.harnessErr = ""
	}
	res.Tape = s.Tape()
	res.Hash = s.Hash()
	res.Steps = s.Step()
	res.SimTimeMs = int64(s.Now() / time.Millisecond)
	res.Preempt = s.Preemptions
	res.Faults = s.Faults
	res.Probes = x.probes
	if s.ParallelRounds > 0 {
		res.Probes["parallel-rounds"] = s.ParallelRounds
	}
	res.NonTrivial = x.nonTrivial
	res.Sample = x.sample
	res.TwinLog = x.twinLog
	res.HarnessErr = x.harnessErr
	res.Blocked = s.Blocked()
	if spec.KeepTrace {
		res.Trace = s.Trace()
		res.Sites = s.SitesUsed
	}
	sort.Strings(x.sigParts)
	res.Sig = strings.Join(x.sigParts, "|")
	switch {
	case res.HarnessErr != "":
		res.Outcome = "abandoned"
	case len(res.Violations) > 0:
		res.Outcome = "violation"
	case len(res.Panics) > 0 && !sc.PanicIsViolation:
		res.Outcome = "abandoned-panic"
	default:
		res.Outcome = "ok"
	}
}

func classifyPanic(v string) string {
	switch {
	case strings.Contains(v, "send on closed channel"):
		return "send-on-closed-channel"
	case strings.Contains(v, "close of closed channel"):
		return "close-of-closed-channel"
	case strings.Contains(v, "close of nil channel"):
		return "close-of-nil-channel"
	case strings.Contains(v, "index out of range"):
		return "index-out-of-range"
	case strings.Contains(v, "nil pointer"):
		return "nil-deref"
	case strings.Contains(v, "concurrent map"):
		return "concurrent-map"
	case strings.Contains(v, "slice bounds"):
		return "slice-bounds"
	case strings.Contains(v, "unlock of unlocked"):
		return "unlock-of-unlocked"
	}
	if len(v) > 40 {
		v = v[:40]
	}
	return v
}

// topShipFrame returns the innermost ship-go function in a stack dump.
func topShipFrame(stack string) string {
	for _, line := range strings.Split(stack, "\n") {
		if strings.HasPrefix(line, "github.com/enbility/ship-go/") {
			fn := strings.TrimPrefix(line, "github.com/enbility/ship-go/")
			if i := strings.LastIndex(fn, "("); i > 0 {
				fn = fn[:i]
			}
			// strip closure suffixes
			for strings.HasSuffix(fn, ".func1") || strings.HasSuffix(fn, ".func2") || strings.HasSuffix(fn, ".1") {
				fn = fn[:strings.LastIndex(fn, ".")]
			}
			return fn
		}
	}
	return "?"
}

func trimStack(st string) string {
	lines := strings.Split(st, "\n")
	var out []string
	for i := 0; i < len(lines) && len(out) < 24; i++ {
		l := lines[i]
		if strings.Contains(l, "verif/simrt") || strings.Contains(l, "runtime/panic") || strings.Contains(l, "runtime.gopanic") {
			// skip the frame line and its position line
			if !strings.HasPrefix(l, "\t") {
				i++
			}
			continue
		}
		out = append(out, l)
	}
	return strings.Join(out, "\n")
}
