//go:build verif

package harness

import (
	"fmt"
	"strings"
	"sync/atomic"
	"time"

	"github.com/enbility/ship-go/ws"
	"github.com/gorilla/websocket"

	"verif/simnet"
	"verif/simrt"
)

// wsRecorder is the SHIP-layer stand-in above one ws.WebsocketConnection.
type wsRecorder struct {
	x    *Ctx
	name string
}

func (r *wsRecorder) HandleIncomingWebsocketMessage(b []byte) {
	r.x.Ev("recv", r.name, "", msgID(b))
}
func (r *wsRecorder) ReportConnectionError(err error) {
	r.x.Ev("connerr", r.name, errStr(err), 0)
}

// wsRig is a websocket connection under test plus a scripted gorilla peer.
type wsRig struct {
	x          *Ctx
	uc, pc     *simnet.Conn // transport endpoints (unit under test, peer)
	wc         *ws.WebsocketConnection
	peer       *websocket.Conn
	pm         simrt.Mutex // serialises the peer's writes (data vs. pong replies)
	uutClient  bool
	ready      chan struct{} // closed when wc exists
	peerReady  chan struct{}
	baseR      int
	baseW      int
	setupTask  *simrt.Task
	peerClosed atomic.Bool
	paused     atomic.Bool // the peer application stops reading
}

// newWsRig spawns the set-up tasks; reader is the data processor installed on
// the unit under test (nil: a recorder).
func newWsRig(x *Ctx, uutClient bool, onReady func(r *wsRig)) *wsRig {
	r := &wsRig{x: x, uutClient: uutClient, ready: make(chan struct{}), peerReady: make(chan struct{})}
	x.Net.OnReadDone = func(c *simnet.Conn, n int) {
		if c.Node() == "U" {
			x.Ev("net-read", c.Name(), "", n)
		}
	}
	var cl, sv *simnet.Conn
	if uutClient {
		cl, sv = x.Net.Pipe("U", "P")
		r.uc, r.pc = cl, sv
	} else {
		cl, sv = x.Net.Pipe("P", "U")
		r.uc, r.pc = sv, cl
	}
	r.setupTask = x.Go("U:setup", func() {
		var c *websocket.Conn
		var err error
		if uutClient {
			c, err = wsClientSide(r.uc)
		} else {
			c, err = wsServerSide(r.uc)
		}
		if err != nil {
			x.HarnessError("uut websocket handshake: " + err.Error())
			return
		}
		r.baseR, r.baseW, _ = r.uc.Counts()
		r.wc = ws.NewWebsocketConnection(c, "peerski")
		close(r.ready)
		if onReady != nil {
			onReady(r)
		}
	})
	x.Go("P:setup", func() {
		var c *websocket.Conn
		var err error
		if uutClient {
			c, err = wsServerSide(r.pc)
		} else {
			c, err = wsClientSide(r.pc)
		}
		if err != nil {
			x.HarnessError("peer websocket handshake: " + err.Error())
			return
		}
		r.peer = c
		c.SetPingHandler(func(data string) error {
			r.pm.Lock()
			defer r.pm.Unlock()
			x.Probe("peer-got-ping")
			return c.WriteControl(websocket.PongMessage, []byte(data), timeNowPlus(5*sec))
		})
		close(r.peerReady)
	})
	return r
}

// peerReadLoop records everything the peer receives until its read fails.
func (r *wsRig) peerReadLoop() {
	for {
		if r.paused.Load() {
			simrt.Sleep(5 * sec)
			continue
		}
		typ, b, err := r.peer.ReadMessage()
		if err != nil {
			r.x.Ev("p-readerr", errStr(err), "", 0)
			return
		}
		if typ != websocket.BinaryMessage {
			r.x.Ev("p-recv-nonbinary", "", "", typ)
			continue
		}
		r.x.Ev("p-recv", "", "", msgID(b))
	}
}

func (r *wsRig) peerSend(id int) error {
	r.pm.Lock()
	defer r.pm.Unlock()
	return r.peer.WriteMessage(websocket.BinaryMessage, idMsg(id))
}

// wsTasksAlive lists ws-package goroutines (the two pumps) still running.
func wsTasksAlive(x *Ctx) []string {
	var out []string
	for _, t := range x.S.Tasks() {
		if t.Exited() || t.Adopted() {
			continue
		}
		l := t.Label
		if i := strings.LastIndex(l, "/"); i >= 0 && strings.HasPrefix(l[i+1:], "ws/websocket.go:") {
			out = append(out, l+" ["+t.BlockedWhat()+"]")
		}
	}
	return out
}

func init() {
	register(&Scenario{Prop: "C12", Horizon: 10 * 60 * sec, Steps: 60000, PanicIsViolation: true, Setup: setupC12})
}

var c12Closings = []string{"local-close", "local-close-reason", "peer-close-frame", "peer-eof", "write-fail", "cut", "stall"}

func setupC12(x *Ctx) {
	if x.Feat(FeatTransportStall) && x.Spec.Prop == "C12" && x.Chance("c12-ship-pair", 0.15) {
		c12ShipPair(x)
		return
	}
	uutClient := x.Chance("uut-client", 0.5)
	nWriters := 1 + x.Choose("writers", 4)
	perWriter := 1 + x.Choose("per-writer", 6)
	closing := c12Closings[x.Choose("closing", len(c12Closings))]
	// further closing events that follow the first one (a stalled sending direction, then a
	// local close, then the peer going away ...), each issued by its own goroutine
	var more []string
	var moreGaps []time.Duration
	if x.Feat(FeatMoreInputs) {
		for i, n := 0, x.Biased("more-closings", 3, 0.5); i < n; i++ {
			more = append(more, c12Closings[x.Choose("closing", len(c12Closings))])
			moreGaps = append(moreGaps, []time.Duration{0, 10 * time.Millisecond, time.Second, 5 * time.Second}[x.Choose("closing-gap", 4)])
		}
	}
	total := nWriters * perWriter
	trigger := x.Choose("trigger", total+1) // closing event becomes enabled after this many accepted writes
	x.SigAdd("closing="+closing+"+"+strings.Join(more, "+"), fmt.Sprintf("w=%d", nWriters))
	x.SetSample(map[string]any{"uut_client": uutClient, "writers": nWriters, "per_writer": perWriter, "closing": closing, "trigger_after_accepted": trigger})

	trig := make(chan struct{})
	var accepted atomic.Int32
	var trigOnce atomic.Bool
	fire := func() {
		if trigOnce.CompareAndSwap(false, true) {
			close(trig)
		}
	}
	closerDone := make(chan struct{})
	var writers []*simrt.Task
	var closedObserved atomic.Bool

	rig := newWsRig(x, uutClient, func(r *wsRig) {
		r.wc.InitDataProcessing(&wsRecorder{x: x, name: "U"})
		if trigger == 0 {
			fire()
		}
		for w := 0; w < nWriters; w++ {
			w := w
			writers = append(writers, x.Go(fmt.Sprintf("U:writer%d", w), func() {
				for j := 0; j < perWriter; j++ {
					id := w*100 + j
					closedBefore, _ := r.wc.IsDataConnectionClosed()
					if closedBefore {
						closedObserved.Store(true)
					}
					x.Ev("w-inv", "", "", id)
					err := r.wc.WriteMessageToWebsocketConnection(idMsg(id))
					x.Ev("w-ret", errStr(err), "", id)
					if err == nil {
						if closedBefore {
							x.Violate("write-accepted-after-closed", "", fmt.Sprintf("write %d was invoked after IsDataConnectionClosed()=true and returned nil", id))
							return
						}
						if int(accepted.Add(1)) >= trigger {
							fire()
						}
					}
				}
			}))
		}
		// if the writers finish without reaching the trigger, fire anyway
		x.Go("U:trigger-fallback", func() {
			for _, t := range writers {
				for !t.Exited() {
					select {
					case <-trig:
						return
					default:
					}
					simrt.Sleep(5 * sec)
				}
			}
			fire()
		})
	})

	x.Go("P:reader", func() {
		simrt.Recv("peerReady", rig.peerReady)
		rig.peerReadLoop()
	})

	x.Go("X:closer", func() {
		simrt.Recv("ready", rig.ready)
		simrt.Recv("peerReady", rig.peerReady)
		simrt.Recv("trig", trig)
		doClosing := func(closing string) {
			switch closing {
			case "local-close":
				rig.wc.CloseDataConnection(4001, "")
			case "local-close-reason":
				rig.wc.CloseDataConnection(4001, "bye")
			case "peer-close-frame":
				rig.pm.Lock()
				_ = rig.peer.WriteControl(websocket.CloseMessage, websocket.FormatCloseMessage(websocket.CloseNormalClosure, "bye"), timeNowPlus(5*sec))
				rig.pm.Unlock()
			case "peer-eof":
				_ = rig.pc.Close()
			case "write-fail":
				rig.uc.FailNextWrite()
			case "cut":
				rig.uc.Cut()
			case "stall":
				// the peer application stops reading and the buffers are nearly full
				rig.paused.Store(true)
				rig.uc.SetSendCapacity(48)
			}
		}
		x.Ev("closing", closing, "", int(accepted.Load()))
		if len(more) == 0 {
			doClosing(closing)
		} else {
			// a closing call may block (close message behind a stalled write): its own task
			x.Go("X:close0", func() { doClosing(closing) })
			for i, c := range more {
				simrt.Sleep(moreGaps[i])
				x.Ev("closing", c, "", int(accepted.Load()))
				c := c
				x.Go(fmt.Sprintf("X:close%d", i+1), func() { doClosing(c) })
			}
			simrt.Sleep(time.Millisecond)
		}
		x.Ev("closing-done", closing, "", 0)
		close(closerDone)
	})

	x.Go("X:end", func() {
		simrt.Recv("closerDone", closerDone)
		// everything (pong wait 60 s, write wait 10 s) must have resolved by then
		simrt.Sleep(150 * sec)
		// writes after the connection is known to be closed must fail
		closed, _ := rig.wc.IsDataConnectionClosed()
		if closed {
			err := rig.wc.WriteMessageToWebsocketConnection(idMsg(9999))
			if err == nil {
				x.Violate("write-accepted-after-closed", "late", "a write issued long after the connection closed returned nil")
				return
			}
		} else if closing != "write-fail" && closing != "stall" {
			// write-fail/stall only bite when another frame or ping is written; by
			// now a ping was due, so the connection must be closed in every case
		}
		var stuck []string
		for _, t := range writers {
			if !t.Exited() {
				stuck = append(stuck, t.Label+" ["+t.BlockedWhat()+"]")
			}
		}
		if len(stuck) > 0 {
			x.Violate("write-never-returns", "", fmt.Sprintf("closing=%s: 150 simulated s later these write calls have not returned: %v", closing, stuck))
			return
		}
		x.S.Stop("done")
	})

	x.OnFinal(func() {
		var acc, got []int
		for _, e := range x.Events() {
			switch e.Kind {
			case "w-ret":
				if e.A == "" {
					acc = append(acc, e.N)
				}
			case "p-recv":
				got = append(got, e.N)
			case "p-recv-nonbinary":
				x.Violate("peer-got-non-binary", "", "peer received a non-binary data frame")
				return
			}
		}
		if len(got) > len(acc) {
			x.Violate("peer-not-prefix", "more", fmt.Sprintf("peer received %v but only %v were accepted", got, acc))
			return
		}
		for i := range got {
			if got[i] != acc[i] {
				x.Violate("peer-not-prefix", "order", fmt.Sprintf("peer received %v, accepted in order %v", got, acc))
				return
			}
		}
		if len(acc) > 0 {
			x.NonTrivial()
		}
		lost := len(acc) - len(got)
		x.SigAdd(fmt.Sprintf("acc=%d", len(acc)), fmt.Sprintf("lost=%d", lost), fmt.Sprintf("closedObs=%v", closedObserved.Load()))
		if lost > 0 {
			x.Probe("tail-lost")
		}
		if closedObserved.Load() {
			x.Probe("writer-saw-closed")
		}
	})
}
