//go:build verif

package harness

import (
	"fmt"
	"net"
	"sort"
	"strings"
	"time"

	"github.com/enbility/ship-go/api"
	"github.com/enbility/ship-go/mdns"
	"github.com/enbility/ship-go/ship"
	"github.com/enbility/ship-go/ws"
	"github.com/gorilla/websocket"

	"verif/simrt"
)

func init() {
	register(&Scenario{Prop: "C08", Horizon: 5 * time.Hour, Steps: 80000, PanicIsViolation: true, Setup: setupC08})
}

func setupC08(x *Ctx) {
	if x.Feat(FeatHelloMatrix) && x.Chance("hello-matrix", 0.25) {
		c08HelloMatrix(x)
		return
	}
	switch x.Biased("c08-engine", 3, 0.55) {
	case 0:
		c08Ship(x)
	case 1:
		c08Ws(x)
	default:
		c08Mdns(x)
	}
}

// ---- SHIP messages of any content in any handshake state

func c08Ship(x *Ctx) {
	x.SigAdd("engine=ship")
	o := c01Opts()
	o.devRate = 0.5
	o.dataRate = 0.08
	o.clockRate = 0.04
	o.connErrRate = 0.01
	o.peerClose = 0.01
	o.maxEvents = 40
	o.trustModes = []string{"paired", "auto", "none", "paired"}
	o.storedIDs = []string{"", "PEERID", "OTHER"}
	s := newShip1(x, o)
	x.OnFinal(func() {
		checkNoWedge(x)
		x.NonTrivial()
		x.SetSample(map[string]any{"engine": "ship", "role": s.role, "deviant_classes": s.devClasses})
	})
}

// c08HelloMatrix: the connection is led into one of its hello listen states and
// then receives one hello message whose members are drawn uniformly from all
// combinations (phase x waiting x prolongationRequest, each possibly absent) -
// the product of the per-frame chances of the general generator is far too
// small for the rarer cells - followed by the usual random events.
func c08HelloMatrix(x *Ctx) {
	x.SigAdd("engine=ship-hello-matrix")
	o, cell := helloMatrixOpts(x)
	s := newShip1(x, o)
	x.OnFinal(func() {
		checkNoWedge(x)
		x.NonTrivial()
		x.SetSample(map[string]any{"engine": "ship-hello-matrix", "role": s.role, "hello_cell": cell})
	})
}

// helloMatrixOpts builds the options of a hello-matrix run (shared with C04, which
// judges the same runs by its state-graph oracle).
func helloMatrixOpts(x *Ctx) (ship1Opts, string) {
	o := c01Opts()
	o.devRate = 0.3
	o.maxEvents = 24
	target := 0
	switch x.Choose("hm-setup", 3) {
	case 0: // server, peer not trusted, waiting allowed: PENDING_LISTEN
		o.roles, o.trustModes, o.noWaiting, target = []string{"server"}, []string{"none"}, 0, 11
		o.userPlans = []string{"none", "none", "approve", "cancel"}
	case 1: // server, trusted: READY_LISTEN
		o.roles, o.trustModes, target = []string{"server"}, []string{"paired", "auto"}, 8
	default: // client: READY_LISTEN
		o.roles, target = []string{"client"}, 8
	}
	phases := []string{"ready", "pending", "aborted", "junk", ""}
	phase := phases[x.Choose("hm-phase", len(phases))]
	w := waitingVals[x.Choose("hm-waiting", len(waitingVals))]
	p := x.Choose("hm-prolong", 3)
	n := 1 + x.Choose("hm-repeat", 2)
	x.SigAdd(fmt.Sprintf("cell=%d/%s/%d/%d", target, phase, w, p))
	delivered := false
	// in half of the runs the peer says nothing more after its hello and keeps the socket open
	if x.Feat(FeatMoreInputs) && x.Chance("hm-silent", 0.5) {
		x.SigAdd("then-silent")
		o.silent = func(state int) bool { return delivered && (n == 0 || state != target) }
	}
	o.inject = func(state int) (string, string, bool) {
		if n > 0 && state == target {
			n--
			delivered = true
			x.Probe("hello-cell-delivered")
			return fHello(phase, w, p), "hello-cell:" + phase, true
		}
		return "", "", false
	}
	return o, fmt.Sprintf("state %d: phase=%q waiting=%d prolongationRequest=%d", target, phase, w, p)
}

// checkNoWedge: every delivery to the SHIP layer returned, and did so within
// 30 simulated seconds (the longest legitimate in-handler wait is 500 ms).
func checkNoWedge(x *Ctx) {
	var open *Event
	for _, e := range x.Events() {
		e := e
		switch e.Kind {
		case "rx":
			open = &e
		case "rx-ret":
			if open != nil && e.T-open.T > 30*time.Second {
				x.Violate("handler-too-slow", "", fmt.Sprintf("delivery of %s in state %d took %v of simulated time", open.A, open.N, e.T-open.T))
				return
			}
			open = nil
		}
	}
	if open != nil && len(x.S.Panics()) == 0 {
		x.Violate("receive-loop-wedged", "handler", fmt.Sprintf("delivery of %s in state %d never returned; blocked tasks: %v", open.A, open.N, x.S.Blocked()))
	}
}

// ---- websocket frames of any type and length, stalled peers

type fwdReader struct {
	x     *Ctx
	inner api.WebsocketDataReaderInterface
}

func (f *fwdReader) HandleIncomingWebsocketMessage(b []byte) {
	f.x.Ev("rx", "ws:"+classify(b), "", len(b))
	f.inner.HandleIncomingWebsocketMessage(b)
	f.x.Ev("rx-ret", "", "", 0)
}
func (f *fwdReader) ReportConnectionError(err error) {
	f.x.Ev("connerr", "U", errStr(err), 0)
	f.inner.ReportConnectionError(err)
}

// wsInit lets a real ShipConnection sit on a ws connection while the harness
// observes the boundary.
type wsInitShim struct {
	*ws.WebsocketConnection
	x *Ctx
}

func (w *wsInitShim) InitDataProcessing(r api.WebsocketDataReaderInterface) {
	w.WebsocketConnection.InitDataProcessing(&fwdReader{x: w.x, inner: r})
}

func c08Ws(x *Ctx) {
	x.SigAdd("engine=ws")
	uutClient := x.Chance("uut-client", 0.3)
	stall := x.Chance("stalled-peer", 0.3)
	nFrames := 1 + x.Choose("frames", 12)
	prov := &stubProvider{x: x, name: "U", paired: true, allowWaiting: true}
	var classes []string
	rig := newWsRig(x, uutClient, func(r *wsRig) {
		role := ship.ShipRoleServer
		if uutClient {
			role = ship.ShipRoleClient
		}
		conn := ship.NewConnectionHandler(prov, &wsInitShim{r.wc, x}, role, "LOCALID", "peerski", "")
		conn.Run()
	})
	x.Go("P:script", func() {
		simrt.Recv("ready", rig.ready)
		simrt.Recv("peerReady", rig.peerReady)
		pc := rig.peer
		if !stall {
			x.Go("P:reader", func() { rig.peerReadLoop() })
		} else {
			// the peer never reads: after a few hundred bytes the send path is full
			rig.uc.SetSendCapacity(120 + 100*x.Choose("sendcap", 5))
			x.Probe("stalled-peer")
		}
		lens := []int{0, 1, 2, 3, 125, 126, 1024, 1025, 65535, 65536, 70000}
		for i := 0; i < nFrames; i++ {
			var err error
			kind := x.Choose("ws-frame", 10)
			n := lens[x.Choose("ws-len", len(lens))]
			payload := make([]byte, n)
			for j := range payload {
				payload[j] = byte('a' + j%7)
			}
			if n > 0 && x.Chance("ws-shiphdr", 0.5) {
				payload[0] = byte(x.Choose("ws-hdr", 4))
			}
			cl := fmt.Sprintf("k%d/len%d", kind, n)
			rig.pm.Lock()
			switch kind {
			case 0:
				err = pc.WriteMessage(websocket.BinaryMessage, payload)
			case 1:
				err = pc.WriteMessage(websocket.TextMessage, payload)
			case 2:
				if n > 125 {
					n = 125
				}
				err = pc.WriteControl(websocket.PingMessage, payload[:n], timeNowPlus(5*sec))
			case 3:
				if n > 125 {
					n = 125
				}
				err = pc.WriteControl(websocket.PongMessage, payload[:n], timeNowPlus(5*sec))
			case 4:
				codes := []int{1000, 1001, 1005, 1006, 1015, 4001, 4452, 0, 65535, 999}
				code := codes[x.Choose("ws-code", len(codes))]
				cl = fmt.Sprintf("close%d", code)
				var pl []byte
				if code != 0 {
					pl = websocket.FormatCloseMessage(code, "r")
				}
				err = pc.WriteControl(websocket.CloseMessage, pl, timeNowPlus(5*sec))
			case 5: // fragmented binary message
				var w interface {
					Write([]byte) (int, error)
					Close() error
				}
				w, err = pc.NextWriter(websocket.BinaryMessage)
				if err == nil {
					for off := 0; off < len(payload); off += 300 {
						end := off + 300
						if end > len(payload) {
							end = len(payload)
						}
						_, _ = w.Write(payload[off:end])
					}
					err = w.Close()
				}
				cl = "fragmented/" + cl
			case 6: // raw garbage on the wire (invalid websocket framing)
				raws := [][]byte{{0xff, 0xff, 0xff, 0xff}, {0x8f, 0x00}, {0x82, 0x7f, 0xff, 0xff, 0xff, 0xff, 0xff, 0xff, 0xff, 0xff}, {0x89, 0x7e, 0x01, 0x00}, {0x00}, {0x82, 0xfe}, {0x72, 0x05, 1, 2, 3, 4, 5}, {0x80, 0x80, 0, 0, 0, 0}}
				raw := raws[x.Choose("ws-raw", len(raws))]
				cl = fmt.Sprintf("rawbytes%x", raw)
				_, err = rig.pc.Write(raw)
			case 7: // a valid SHIP frame (provokes replies, which matters with a stalled peer)
				fs := []string{fInit, fHelloReady, fProtAnnounce, fProtSelect, fPinNone, fAccessReq, fAccess("PEERID"), fData(5), fCloseAnnounce}
				f := fs[x.Choose("ws-ship", len(fs))]
				cl = "ship:" + classify([]byte(f))
				err = pc.WriteMessage(websocket.BinaryMessage, []byte(f))
			case 8: // deviant SHIP frame
				f, c := deviantFrame(x, nil)
				cl = "dev:" + c
				err = pc.WriteMessage(websocket.BinaryMessage, []byte(f))
			case 9:
				rig.pm.Unlock()
				d := sleepChoices[x.Choose("sleep", len(sleepChoices))]
				simrt.Sleep(d)
				rig.pm.Lock()
				cl = "sleep"
			}
			rig.pm.Unlock()
			classes = append(classes, cl)
			x.SigAdd("f:" + cl)
			if err != nil {
				x.Ev("p-writeerr", errStr(err), "", 0)
				break
			}
		}
		if x.Chance("peer-eof", 0.3) {
			_ = rig.pc.Close()
		}
		simrt.Sleep(200 * sec)
		// no ws goroutine may be blocked on a lock or channel by now (waiting
		// for transport input or in its select loop is fine)
		for _, t := range x.S.Tasks() {
			if t.Exited() || t.Adopted() {
				continue
			}
			l := t.Label
			if i := strings.LastIndex(l, "/"); i >= 0 && strings.HasPrefix(l[i+1:], "ws/websocket.go:") {
				w := t.BlockedWhat()
				if w != "" && !strings.HasPrefix(w, "select") && time.Since(t.BlockedSince()) > 30*time.Second {
					x.Violate("receive-loop-wedged", "ws", fmt.Sprintf("ws goroutine %s blocked on %s for %v; frames sent: %v", l, w, time.Since(t.BlockedSince()), classes))
					return
				}
			}
		}
		x.S.Stop("done")
	})
	x.OnFinal(func() {
		checkNoWedge(x)
		x.NonTrivial()
		x.SetSample(map[string]any{"engine": "ws", "uut_client": uutClient, "stalled_peer": stall, "frames": classes})
	})
}

// ---- mDNS TXT records, addresses, ports

type nullProvider struct {
	cb api.MdnsResolveCB
}

func (p *nullProvider) Start(auto bool, cb api.MdnsResolveCB) bool { p.cb = cb; return true }
func (p *nullProvider) Shutdown()                                  {}
func (p *nullProvider) Announce(string, int, []string) error       { return nil }
func (p *nullProvider) Unannounce()                                {}

type recReport struct {
	x *Ctx
}

func (r *recReport) ReportMdnsEntries(entries map[string]*api.MdnsEntry, newEntries bool) {
	keys := make([]string, 0, len(entries))
	for k := range entries {
		keys = append(keys, k)
	}
	sort.Strings(keys)
	r.x.Ev("mdns-report", strings.Join(keys, ","), "", len(entries))
}

func c08Mdns(x *Ctx) {
	x.SigAdd("engine=mdns")
	prov := &nullProvider{}
	mdns.VerifZeroconfFactory = func(m *mdns.MdnsManager, _ []net.Interface) api.MdnsProviderInterface { return prov }
	x.Go("M:events", func() {
		m := mdns.NewMDNS("ownski", "brand", "model", "type", "serial", nil, "id", "svc", 4711, nil, mdns.MdnsProviderSelectionGoZeroConfOnly)
		if err := m.Start(&recReport{x}); err != nil {
			x.HarnessError("mdns start: " + err.Error())
			return
		}
		n := 1 + x.Choose("mdns-events", 10)
		var samples []string
		for i := 0; i < n; i++ {
			txt, valid := genTxt(x)
			var addrs []net.IP
			switch x.Choose("mdns-addrs", 6) {
			case 0:
				addrs = nil
			case 1:
				addrs = []net.IP{}
			case 2:
				addrs = []net.IP{net.ParseIP("10.0.0.1")}
			case 3:
				addrs = []net.IP{nil, net.ParseIP("fe80::1"), net.ParseIP("2001:db8::1")}
			case 4:
				addrs = []net.IP{{1, 2, 3}, {}}
			case 5:
				addrs = []net.IP{net.ParseIP("10.0.0.1"), net.ParseIP("10.0.0.1"), net.ParseIP("0.0.0.0")}
			}
			port := []int{-1, 0, 4711, 65535, 65536, 70000}[x.Choose("mdns-port", 6)]
			remove := x.Chance("mdns-remove", 0.25)
			before := keysOf(m.VerifEntries())
			x.Ev("mdns-in", fmt.Sprint(txt), "", port)
			prov.cb(txt, "name", "host.local", addrs, port, remove)
			after := keysOf(m.VerifEntries())
			if !valid && before != after {
				x.Violate("invalid-record-not-ignored", "", fmt.Sprintf("TXT %v is invalid but changed the entry set from [%s] to [%s]", txt, before, after))
				return
			}
			if len(samples) < 3 {
				samples = append(samples, fmt.Sprint(txt))
			}
		}
		simrt.Sleep(time.Second)
		x.NonTrivial()
		x.SetSample(map[string]any{"engine": "mdns", "txt_samples": samples})
		x.S.Stop("done")
	})
}

func keysOf(m map[string]*api.MdnsEntry) string {
	keys := make([]string, 0, len(m))
	for k := range m {
		keys = append(keys, k)
	}
	sort.Strings(keys)
	return strings.Join(keys, ",")
}

// genTxt draws a TXT map and says whether it is valid by the statement's rule
// (version 1, id, path, ski, boolean register; not the local SKI).
func genTxt(x *Ctx) (map[string]string, bool) {
	if x.Chance("txt-nil", 0.05) {
		return nil, false
	}
	txt := map[string]string{"txtvers": "1", "id": "ID", "path": "/ship/", "ski": "aabb", "register": "true", "brand": "b", "model": "m", "type": "t"}
	valid := true
	n := x.Choose("txt-mut", 4)
	for i := 0; i < n; i++ {
		switch x.Choose("txt-op", 9) {
		case 0:
			k := []string{"txtvers", "id", "path", "ski", "register"}[x.Choose("txt-drop", 5)]
			delete(txt, k)
			valid = false
		case 1:
			txt["txtvers"] = []string{"2", "", "1 ", "01"}[x.Choose("txt-vers", 4)]
			valid = false
		case 2:
			txt["register"] = []string{"TRUE", "", "1", "yes", "false "}[x.Choose("txt-reg", 5)]
			valid = false
		case 3:
			txt["ski"] = "ownski"
			valid = false
		case 4:
			txt["cat"] = []string{"", ",", "1,,2", "-1", "99999999999999999999", "a,b", "1,2,3"}[x.Choose("txt-cat", 7)]
		case 5:
			txt["ski"] = []string{"", " ", "AABB", strings.Repeat("f", 5000)}[x.Choose("txt-ski", 4)]
		case 6:
			txt["register"] = "false"
		case 7:
			txt[""] = ""
			txt["brand"] = strings.Repeat("x", 300)
		case 8:
			txt["ski"] = []string{"ski2", "ski3"}[x.Choose("txt-ski2", 2)]
		}
	}
	// validity by the statement's rule, computed on the final map
	valid = true
	for _, k := range []string{"txtvers", "id", "path", "ski", "register"} {
		if _, ok := txt[k]; !ok {
			valid = false
		}
	}
	if txt["txtvers"] != "1" || (txt["register"] != "true" && txt["register"] != "false") || txt["ski"] == "ownski" {
		valid = false
	}
	return txt, valid
}
