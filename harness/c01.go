//go:build verif

package harness

import (
	"fmt"
	"time"
)

func init() {
	register(&Scenario{Prop: "C01", Horizon: 4 * time.Hour, Steps: 80000, Setup: setupC01})
}

func c01Opts() ship1Opts {
	return ship1Opts{
		devRate: 0.22, dataRate: 0.12, clockRate: 0.08, connErrRate: 0.015, peerClose: 0.02,
		maxEvents:  32,
		userPlans:  []string{"none", "approve", "cancel", "revoke", "none", "cancel", "approve"},
		helloModes: []string{"ready", "pending", "aborted"},
		trustModes: []string{"none", "paired", "auto", "none"},
		storedIDs:  []string{"", "PEERID"},
		presented:  []string{fAccess("PEERID")},
		noWaiting:  0.25,
		roles:      []string{"server", "client", "server"},
		lateFrames: 3,
		warmup:     0.15,
	}
}

func setupC01(x *Ctx) {
	hubShare := 0.03
	if x.Feat(FeatMoreInputs) {
		hubShare = 0.06
	}
	if x.Chance("c01-hub", hubShare) {
		c01Hub(x)
		return
	}
	s := newShip1(x, c01Opts())
	x.OnFinal(func() { checkTrustGate(x, s.role, "U") })
}

// checkTrustGate is the C01 oracle over the recorded history of connection
// `name`: hello-ok or later / setup / payload / completed imply that trust had
// been granted before.
func checkTrustGate(x *Ctx, role, name string) {
	granted := role == "client"
	how := ""
	if granted {
		how = "client role"
	}
	setupReturned := false
	cancelledWhilePending := false
	cancelSeq := 0
	sawPending := false
	reached := 0
	for _, e := range x.Events() {
		if e.A != name && (e.Kind == "q-paired" || e.Kind == "q-auto" || e.Kind == "state" || e.Kind == "setup" || e.Kind == "setup-ret" || e.Kind == "payload") {
			continue
		}
		switch e.Kind {
		case "q-paired", "q-auto":
			if e.B == "true" && !granted {
				granted = true
				how = e.Kind
			}
		case "user-approve":
			if !granted {
				granted = true
				how = "user approved"
			}
		case "user-cancel":
			if e.N == 11 && !granted {
				cancelSeq = e.Seq
			}
		case "user-cancel-ret":
			if cancelSeq != 0 {
				cancelledWhilePending = true
			}
		case "state":
			if e.N == 11 {
				sawPending = true
			}
			if e.N > reached && e.N < 39 {
				reached = e.N
			}
			if isProgressState(e.N) {
				if !granted {
					x.Violate("progress-without-trust", fmt.Sprintf("state%d", e.N), fmt.Sprintf("%s role, state %d reported (event %d) although trust was never granted", role, e.N, e.Seq))
					return
				}
				if cancelledWhilePending && e.Seq > cancelSeq {
					x.Violate("progress-after-cancel", "", fmt.Sprintf("state %d reported after the user cancelled the pending request", e.N))
					return
				}
			}
		case "setup":
			if !granted {
				x.Violate("setup-without-trust", "", fmt.Sprintf("%s role: SetupRemoteDevice called although trust was never granted", role))
				return
			}
			if cancelledWhilePending {
				x.Violate("progress-after-cancel", "setup", "SetupRemoteDevice called after the user cancelled the pending request")
				return
			}
		case "setup-ret":
			setupReturned = true
		case "payload":
			if !granted {
				x.Violate("payload-without-trust", "", fmt.Sprintf("%s role: SPINE payload %d delivered although trust was never granted", role, e.N))
				return
			}
			if !setupReturned {
				x.Violate("payload-before-setup", "", fmt.Sprintf("SPINE payload %d delivered before SetupRemoteDevice returned", e.N))
				return
			}
		}
	}
	if sawPending {
		x.Probe("reached-pending-listen")
		x.NonTrivial()
	}
	if reached >= 13 {
		x.Probe("reached-hello-ok")
	}
	if reached == 38 {
		x.Probe("completed")
	}
	if cancelledWhilePending {
		x.Probe("cancelled-while-pending")
	}
	x.SigAdd(fmt.Sprintf("granted=%s", how), fmt.Sprintf("reached=%d", reached))
	x.SetSample(map[string]any{"role": role, "granted_by": how, "highest_state": reached, "events": len(x.Events())})
}
