//go:build verif

package harness

import (
	"fmt"
	"time"

	"verif/simnet"
	"verif/simrt"
)

func init() { hubC11 = setupC11Hub }

var c11Causes = []string{"disconnect-A", "disconnect-B", "unregister-A", "cut", "half-open", "unsafe-close-B", "reregister-A", "shutdown-B", "crash-B", "crash-B-silent", "restart-B"}

// setupC11Hub: two real hubs; connections end for 1-4 coinciding reasons
// (double-connection resolution comes for free when both dial at once), with
// reconnects in between.
func setupC11Hub(x *Ctx) {
	x.SigAdd("engine=hub")
	r := newHubRig(x)
	a, b := r.addNode("A"), r.addNode("B")
	lat := []time.Duration{0, time.Millisecond, 25 * time.Millisecond, 300 * time.Millisecond}[x.Choose("latency", 4)]
	x.Net.Latency = func(*simnet.Conn) time.Duration { return lat }
	r.eth.Delay = func() time.Duration {
		return time.Duration(x.S.ChooseBiased("mdns-delay", 3, 0.6)) * 200 * time.Millisecond
	}
	if x.Feat(FeatCutAtRegister) && x.Chance("cut-at-register", 0.12) {
		k := 1 + x.Choose("cut-at-register-k", 4)
		stall := x.Chance("stall-at-register", 0.5)
		// stall only: the connection is registered and run late (slow application
		// callback), its reader is active all the while
		noCut := x.Feat(FeatLateRun) && x.Chance("stall-only-at-register", 0.4)
		if noCut {
			stall = true
		}
		r.atRegister = func(node string, n int) {
			if n == k {
				if noCut {
					x.Probe("stall-at-register")
					simrt.Sleep(20 * time.Millisecond)
					return
				}
				x.Probe("cut-at-register")
				r.cutNewest(node)
				if stall {
					// the registering goroutine is descheduled for a moment
					simrt.Sleep(time.Millisecond)
				}
			}
		}
	}
	n := 1 + x.Choose("causes", 4)
	var causes []string
	var gaps []time.Duration
	for i := 0; i < n; i++ {
		kinds := c11Causes
		if !x.Feat(FeatCrash) {
			kinds = c11Causes[:8]
		}
		causes = append(causes, kinds[x.Choose("cause", len(kinds))])
		gaps = append(gaps, []time.Duration{0, 0, time.Millisecond, 400 * time.Millisecond, 600 * time.Millisecond, 3 * time.Second, 25 * time.Second}[x.Choose("gap", 7)])
	}
	x.SigAdd(fmt.Sprintf("lat=%v causes=%v gaps=%v", lat, causes, gaps))
	x.SetSample(map[string]any{"engine": "hub", "latency": lat.String(), "close_causes": causes, "gaps": fmt.Sprint(gaps)})
	for _, p := range [][2]*hubNode{{a, b}, {b, a}} {
		n, peer := p[0], p[1]
		x.Go(n.name+":start", func() {
			n.create()
			simrt.Recv("peer", peer.ready)
			n.hub.RegisterRemoteSKI(peer.ski)
			n.hub.Start()
		})
	}
	shutB := false
	x.Go("X:script", func() {
		simrt.Recv("a", a.ready)
		simrt.Recv("b", b.ready)
		simrt.Sleep(time.Duration(2+x.Choose("settle", 8)) * time.Second)
		for i, c := range causes {
			if gaps[i] > 0 {
				simrt.Sleep(gaps[i])
			}
			x.Ev("cause", c, "", i)
			var live []*simnet.Conn
			for _, cn := range x.Net.Conns() {
				if cn.Side() == "c" && !cn.Closed() && !cn.Peer().Closed() && !cn.Broken() {
					live = append(live, cn)
				}
			}
			switch c {
			case "disconnect-A":
				// not waited for: the next cause may coincide with it
				ha, bs := a.hub, b.ski
				a.spawn("op", func() { ha.DisconnectSKI(bs, "x") })
			case "crash-B", "crash-B-silent":
				// the peer process dies: killed (sockets reset) or power loss (silence)
				if !b.crashed {
					b.crash(c == "crash-B")
					x.Probe(c)
				}
			case "restart-B":
				if b.crashed {
					b.restart(a)
					x.Probe(c)
				}
			case "disconnect-B":
				if b.crashed {
					break
				}
				hb := b.hub
				as := a.ski
				b.spawn("op", func() { hb.DisconnectSKI(as, "x") })
			case "unregister-A":
				ha, bs := a.hub, b.ski
				a.spawn("op", func() { ha.UnregisterRemoteSKI(bs) })
			case "reregister-A":
				ha, bs := a.hub, b.ski
				a.spawn("op", func() { ha.RegisterRemoteSKI(bs) })
			case "unsafe-close-B":
				if b.crashed {
					break
				}
				hb := b.hub
				b.spawn("op", func() {
					for _, cn := range hb.VerifConnections() {
						cn.CloseConnection(false, 4500, "x")
					}
				})
			case "cut":
				for _, cn := range live {
					cn.Cut()
				}
			case "half-open":
				for _, cn := range live {
					cn.SetBlackhole(true)
				}
			case "shutdown-B":
				if !shutB && !b.crashed && b.gen == 0 {
					shutB = true
					hb := b.hub
					b.spawn("op", func() { hb.Shutdown() })
				}
			}
		}
		simrt.Sleep(260 * time.Second)
		checkHubAccounting(x, r)
		if !x.S.Stopped() {
			x.S.Stop("done")
		}
	})
}

// checkHubAccounting is the hub-level C11 oracle at quiescence.
func checkHubAccounting(x *Ctx, r *hubRig) {
	type ck struct{ node, conn string }
	closed := map[ck]int{}
	type pk struct{ node, ski string }
	last := map[pk]string{}
	lastSetupSeq := map[pk]int{}        // sequence number of the last 'set up' notification
	lastDiscTask := map[pk]string{}     // goroutine that delivered the last 'disconnected'
	closedSeqByTask := map[string]int{} // goroutine -> sequence number of the (last) connection end it handled
	for _, e := range x.Events() {
		switch e.Kind {
		case "crash":
			// the application of that node died with it: its notification history starts afresh
			for k := range last {
				if k.node == e.A {
					delete(last, k)
				}
			}
		case "hub-closed":
			closed[ck{e.A, e.B}]++
			closedSeqByTask[e.Task] = e.Seq
		case "app-setup":
			last[pk{e.A, e.B}] = "setup"
			lastSetupSeq[pk{e.A, e.B}] = e.Seq
		case "app-disconnected":
			last[pk{e.A, e.B}] = "disconnected"
			lastDiscTask[pk{e.A, e.B}] = e.Task
		}
	}
	for _, name := range r.order {
		for k, n := range closed {
			if k.node == name && n > 1 {
				x.Violate("connection-end-reported-twice", "hub", fmt.Sprintf("hub %s: HandleConnectionClosed was called %d times for connection object %s", k.node, n, k.conn))
				return
			}
		}
	}
	multi := 0
	for _, n := range closed {
		multi += n
	}
	for _, nn := range r.order {
		n := r.nodes[nn]
		if n.crashed {
			continue // no process, nothing to account for
		}
		var reg map[string]int
		n.on("query", func() {
			reg = map[string]int{}
			for ski, c := range n.hub.VerifConnections() {
				st, _ := c.ShipHandshakeState()
				reg[ski] = int(st)
			}
		})
		for _, mn := range r.order {
			m := r.nodes[mn]
			if m == n {
				continue
			}
			st, registered := reg[m.ski]
			completedRegistered := registered && st == 38
			l := last[pk{n.name, m.ski}]
			if (l == "setup") != completedRegistered {
				discr := ""
				k := pk{n.name, m.ski}
				if l == "disconnected" && completedRegistered && closedSeqByTask[lastDiscTask[k]] != 0 && closedSeqByTask[lastDiscTask[k]] < lastSetupSeq[k] {
					// the 'disconnected' belongs to an older connection: HandleConnectionClosed had
					// taken it out of the registry before the newer connection was set up, but
					// delivered its notification only afterwards
					discr = "disconnect-of-older-connection-delivered-after-newer-setup"
				}
				x.Violate("last-notification-inconsistent", discr, fmt.Sprintf("hub %s about %s: the application's last notification is %q but a completed connection is registered: %v (registry state %d, registered %v)", n.name, m.name, l, completedRegistered, st, registered))
				return
			}
			// a registered connection must be alive: its transport open
			if registered {
				open := false
				for _, cn := range x.Net.Conns() {
					if cn.Node() == n.name && cn.PeerNode() == m.name && !cn.Closed() && !cn.Broken() && !x.S.Frozen(cn.Group()) {
						open = true
					}
				}
				if !open {
					x.Violate("dead-connection-registered", "", fmt.Sprintf("hub %s still has a registry entry for %s although no transport connection between them is open (state %d)", n.name, m.name, st))
					return
				}
			}
		}
	}
	if multi >= 2 {
		x.NonTrivial()
		x.Probe("several-connection-ends")
	}
}
