//go:build verif

package harness

import (
	"fmt"
	"strconv"
	"strings"
	"testing"
	"time"
	"verif/simrt"
)

func init() {
	register(&Scenario{Prop: "C04", Horizon: 4 * time.Hour, Steps: 80000, Setup: setupC04})
	enumerators["C04"] = enumC04
}

// Reference SHIP 1.0.1 state graph with the states ship-go never reports
// contracted (DESIGN.md appendix A). Written from the specification's
// diagrams (13.4.3 - 13.4.6), not from the implementation.
var (
	edgesClient = parseEdges("0>1 1>2 2>3 3>6 6>7 7>8 8>13 13>19 19>22 22>24 24>26 26>27 27>31 31>36 36>37 37>38")
	edgesServer = parseEdges("0>4 4>5 5>6 6>7 6>10 7>8 10>11 11>7 8>13 13>18 18>20 20>21 21>25 25>26 26>27 27>31 31>36 36>37 37>38")
	edgesAbort  = parseEdges("7>14 8>14 10>14 11>14 14>15 8>16 11>16 8>17 11>17 14>39 15>39 16>39 17>39")
)

func parseEdges(s string) map[[2]int]bool {
	m := map[[2]int]bool{}
	for _, f := range strings.Fields(s) {
		p := strings.Split(f, ">")
		a, _ := strconv.Atoi(p[0])
		b, _ := strconv.Atoi(p[1])
		m[[2]int{a, b}] = true
	}
	return m
}

func phaseOf(st int) int {
	switch {
	case st <= 5:
		return 0
	case st <= 17:
		return 1
	case st <= 25:
		return 2
	case st <= 35:
		return 3
	case st == 36:
		return 4
	case st == 37:
		return 5
	case st == 38:
		return 6
	}
	return -1 // error
}

func edgeAllowed(role string, a, b int) bool {
	if a == b {
		return true
	}
	if b == 39 {
		return true // error exit from everywhere (incl. loss of a completed connection)
	}
	if isTerminalState(a) {
		return edgesAbort[[2]int{a, b}]
	}
	if edgesAbort[[2]int{a, b}] {
		return true
	}
	if role == "client" {
		return edgesClient[[2]int{a, b}]
	}
	return edgesServer[[2]int{a, b}]
}

func enumC04(t *testing.T, tier string) []string {
	maxW := 0
	for i := 0; i < 6; i++ {
		spec := RunSpec{Prop: "C04", Variant: "probe", Seed: uint64(500 + i), Tier: tier, Feat: FeatAll}
		res := Execute(t, spec)
		if m, ok := res.Sample.(map[string]any); ok {
			if w, ok := m["writes"].(int); ok && w > maxW {
				maxW = w
			}
		}
	}
	vs := []string{"none", "none", "none", "hello", "hello"}
	for k := 1; k <= maxW+2; k++ {
		vs = append(vs, "a"+strconv.Itoa(k), "b"+strconv.Itoa(k))
	}
	return vs
}

func setupC04(x *Ctx) {
	variant := x.Spec.Variant
	o := c01Opts()
	o.devRate = 0.10
	o.dataRate = 0.05
	o.clockRate = 0.08
	o.connErrRate = 0.02
	o.peerClose = 0.03
	o.trustModes = []string{"paired", "none", "auto", "paired"}
	o.storedIDs = []string{"", "PEERID", "OTHER"}
	o.userPlans = []string{"none", "approve", "cancel", "revoke", "close-safe", "close-unsafe", "none"}
	o.lateFrames = 0 // like the ws read pump: nothing is handed over once the transport is closed
	switch {
	case variant == "probe":
		o.devRate, o.dataRate, o.clockRate, o.connErrRate, o.peerClose = 0, 0, 0, 0, 0
		o.trustModes = []string{"paired"}
		o.userPlans = []string{"none"}
		o.helloModes = []string{"ready"}
		o.storedIDs = []string{""}
	case strings.HasPrefix(variant, "a"):
		o.writeFailAt, _ = strconv.Atoi(variant[1:])
	case strings.HasPrefix(variant, "b"):
		o.writeFailAt, _ = strconv.Atoi(variant[1:])
		o.failOnce = true
	}
	if x.Feat(FeatMoreInputs) && (variant == "hello" || (variant == "" || variant == "none") && x.Chance("c04-hello-matrix", 0.3)) {
		// one hello message drawn uniformly from all member combinations, delivered in a
		// hello listen state (the cells the general generator reaches once in 1600 frames)
		var cell string
		o, cell = helloMatrixOpts(x)
		x.SigAdd("hello-cell=" + cell)
	}
	// a timeout handed to the state machine is an observable of its own: since progress is no
	// longer reported after the end of a connection, a timer left armed shows in nothing else
	var s *ship1
	hook := func(name string, args []any) {
		if name != "ship.ShipConnection.handleState" || s == nil || len(args) < 2 || args[0] != any(s.conn) {
			return
		}
		if to, ok := args[1].(bool); ok && to {
			x.Ev("timeout-delivered", "U", "", int(s.state()))
		}
	}
	simrt.ProbeHook.Store(&hook)
	s = newShip1(x, o)
	x.SigAdd("v=" + variant)
	x.OnFinal(func() {
		checkStateGraph(x, s.role, "U")
		if variant != "" && variant != "none" && variant != "probe" && variant != "hello" {
			for _, e := range x.Events() {
				if e.Kind == "tx-failed" {
					x.NonTrivial()
				}
			}
		} else {
			x.NonTrivial()
		}
		x.SetSample(map[string]any{"role": s.role, "variant": variant, "writes": s.tw.writes(), "states": stateSeq(x, "U")})
	})
}

func stateSeq(x *Ctx, name string) []int {
	var out []int
	for _, e := range x.Events() {
		if e.Kind == "state" && e.A == name {
			out = append(out, e.N)
		}
	}
	return out
}

// checkStateGraph is the C04 oracle for the history of connection `name`.
func checkStateGraph(x *Ctx, role, name string) {
	evs := x.Events()
	prev := 0
	maxPhase := 0
	phases := map[int]bool{0: true}
	terminalAt := time.Duration(-1)
	terminalSeq := 0
	terminalState := 0
	quietStart := time.Duration(-1)
	tcloseAt := time.Duration(-1)
	var seq []int
	closedTask := ""
	closedDuringRx, rxOpen := false, false
	rxOpenSeq, closedRxSeq := 0, 0
	for i, e := range evs {
		if e.Kind == "rx" {
			rxOpen, rxOpenSeq = true, e.Seq
		}
		if e.Kind == "rx-ret" {
			rxOpen = false
		}
		if e.Kind == "quiet-start" {
			quietStart = e.T
		}
		if e.Kind == "quiet-end" {
			evs = evs[:i]
			break
		}
		if e.A != name {
			continue
		}
		switch e.Kind {
		case "state":
			st := e.N
			seq = append(seq, st)
			// once the end of the connection has been reported (closed by another goroutine
			// while a message was being handled), the handler's progress is no longer
			// reported (fix 'no progress after close'); the end state it finally reaches
			// is, and has no reported predecessor
			if !(terminalSeq != 0 && terminalState == -1 && isTerminalState(st)) && !edgeAllowed(role, prev, st) {
				x.Violate("illegal-transition", fmt.Sprintf("%s:%d>%d", role, prev, st), fmt.Sprintf("%s role reported state %d after %d, which the SHIP state graph does not allow (sequence %v)", role, st, prev, seq))
				return
			}
			if terminalSeq != 0 && !isTerminalState(st) {
				discr := fmt.Sprintf("after-state-%d", terminalState)
				if terminalState == -1 {
					discr = "after-closed"
					// the close was requested by another goroutine while this handler invocation was in flight
					if closedTask != e.Task && closedDuringRx && rxOpenSeq == closedRxSeq {
						discr = "closed-by-other-goroutine-during-handler"
					}
				}
				x.Violate("progress-after-terminal", discr, fmt.Sprintf("state %d reported after terminal outcome %d (-1 = close reported); sequence %v", st, terminalState, seq))
				return
			}
			if ph := phaseOf(st); ph >= 0 {
				if ph < maxPhase {
					x.Violate("phase-regression", fmt.Sprintf("%d>%d", prev, st), fmt.Sprintf("state %d (phase %d) reported after phase %d was reached (sequence %v)", st, ph, maxPhase, seq))
					return
				}
				maxPhase = ph
				phases[ph] = true
			}
			if st == 38 && len(phases) != 7 {
				x.Violate("phase-skipped", "", fmt.Sprintf("completed was reported but only phases %v occurred (sequence %v)", phases, seq))
				return
			}
			if isTerminalState(st) && terminalSeq == 0 {
				terminalSeq, terminalAt, terminalState = e.Seq, e.T, st
			}
			prev = st
		case "closed":
			if terminalSeq == 0 {
				terminalSeq, terminalAt, terminalState = e.Seq, e.T, -1
				closedTask = e.Task
				closedDuringRx = rxOpen
				closedRxSeq = rxOpenSeq
			}
		case "tclose":
			if tcloseAt < 0 {
				tcloseAt = e.T
			}
		case "tx":
			if terminalSeq != 0 && e.Seq > terminalSeq {
				switch e.B {
				case "hello:aborted", "proterr", "close:announce", "close:confirm":
				default:
					x.Violate("frame-after-terminal", e.B, fmt.Sprintf("frame %s written after the terminal outcome %d (sequence %v)", e.B, terminalState, seq))
					return
				}
			}
		case "setup", "shipid":
			if terminalSeq != 0 && e.Seq > terminalSeq {
				discr := e.Kind
				if terminalState == -1 && closedTask != e.Task && closedDuringRx && rxOpenSeq == closedRxSeq {
					// same history as the known finding: the close was requested by another
					// goroutine while this very handler invocation was in flight
					discr += ":closed-by-other-goroutine-during-handler"
				}
				x.Violate("callback-after-terminal", discr, fmt.Sprintf("%s callback after the terminal outcome %d", e.Kind, terminalState))
				return
			}
		}
	}
	if terminalSeq == 0 {
		return
	}
	x.Probe("terminal-outcome")
	// the transport gets closed (within 2 simulated s; the delayed-close paths take 0.5 - 1 s)
	if tcloseAt < 0 || tcloseAt > terminalAt+2*time.Second {
		// a terminal *state* 14 is followed by 15 and a delayed close; measure from the last terminal event
		lastT := terminalAt
		for _, e := range evs {
			if e.A == name && e.Kind == "state" && isTerminalState(e.N) && e.T > lastT {
				lastT = e.T
			}
		}
		if tcloseAt < 0 || tcloseAt > lastT+2*time.Second {
			x.Violate("transport-not-closed", fmt.Sprintf("after%d", terminalState), fmt.Sprintf("terminal outcome %d at %v but the transport close was requested at %v (-1 = never); sequence %v", terminalState, terminalAt, tcloseAt, seq))
			return
		}
	}
	// no timer left armed: nothing at all happens in the input-free quiet period
	if quietStart >= 0 {
		limit := quietStart
		if terminalAt > limit {
			limit = terminalAt
		}
		limit += 2 * time.Second
		for _, e := range evs {
			if e.A != name || e.T <= limit {
				continue
			}
			switch e.Kind {
			case "state", "tx", "setup", "shipid", "payload", "closed", "tclose", "tx-rejected", "timeout-delivered":
				x.Violate("activity-after-terminal", e.Kind, fmt.Sprintf("%s event at %v, long after the terminal outcome %d at %v, with no input delivered (a timer was left armed); sequence %v", e.Kind, e.T, terminalState, terminalAt, seq))
				return
			}
		}
	}
}
