//go:build verif

package harness

import (
	"errors"
	"fmt"
	"strings"
	"sync"

	"github.com/enbility/go-avahi"
	dbus "github.com/godbus/dbus/v5"

	"verif/simrt"
)

// fakeDaemon is a fake Avahi daemon (behind D-Bus): it can be available or
// not, can disconnect, knows the services on the network and records every
// call the provider makes. fakeAvahiServer mirrors go-avahi's Server: signal
// dispatch holds the server mutex while it sends on the browser's channels,
// freeing a browser waits for that mutex, the disconnect callback runs on its
// own goroutine.
type fakeDaemon struct {
	x *Ctx

	mu        sync.Mutex
	available bool
	failNext  int // the next n connection attempts fail
	services  map[string]avahi.Service
	servers   []*fakeAvahiServer
	resolveOK bool
	nextPath  int
}

func newFakeDaemon(x *Ctx) *fakeDaemon {
	return &fakeDaemon{x: x, available: true, services: map[string]avahi.Service{}, resolveOK: true}
}

type fakeGroup struct {
	srv       *fakeAvahiServer
	path      dbus.ObjectPath
	txt       []string
	name      string
	port      uint16
	committed bool
	freed     bool
}

func (g *fakeGroup) DispatchSignal(*dbus.Signal) error { return nil }
func (g *fakeGroup) GetObjectPath() dbus.ObjectPath    { return g.path }
func (g *fakeGroup) Free()                             { g.freed = true }
func (g *fakeGroup) Commit() error {
	if !g.srv.isConnected() {
		return errors.New("dbus: connection closed")
	}
	g.committed = true
	g.srv.d.x.Ev("av-commit", g.name, strings.Join(g.txt, ";"), int(g.port))
	return nil
}
func (g *fakeGroup) Reset() error             { g.committed = false; return nil }
func (g *fakeGroup) GetState() (int32, error) { return 0, nil }
func (g *fakeGroup) IsEmpty() (bool, error)   { return len(g.txt) == 0, nil }
func (g *fakeGroup) AddService(iface, protocol int32, flags uint32, name, serviceType, domain, host string, port uint16, txt [][]byte) error {
	if !g.srv.isConnected() {
		return errors.New("dbus: connection closed")
	}
	g.name, g.port = name, port
	g.txt = nil
	for _, t := range txt {
		g.txt = append(g.txt, string(t))
	}
	return nil
}
func (g *fakeGroup) AddServiceSubtype(iface, protocol int32, flags uint32, name, serviceType, domain, subtype string) error {
	return nil
}
func (g *fakeGroup) UpdateServiceTxt(iface, protocol int32, flags uint32, name, serviceType, domain string, txt [][]byte) error {
	return nil
}
func (g *fakeGroup) AddAddress(iface, protocol int32, flags uint32, name, address string) error {
	return nil
}
func (g *fakeGroup) AddRecord(iface, protocol int32, flags uint32, name string, class, recordType uint16, ttl uint32, rdata []byte) error {
	return nil
}

type fakeBrowser struct {
	srv         *fakeAvahiServer
	path        dbus.ObjectPath
	add, remove chan avahi.Service
	freed       bool
}

func (b *fakeBrowser) DispatchSignal(*dbus.Signal) error { return nil }
func (b *fakeBrowser) GetObjectPath() dbus.ObjectPath    { return b.path }
func (b *fakeBrowser) Free()                             { b.freed = true }

type fakeSignal struct {
	svc    avahi.Service
	remove bool
}

type fakeAvahiServer struct {
	d  *fakeDaemon
	id int

	mutex simrt.Mutex // = go-avahi Server.mutex

	st        sync.Mutex
	connected bool
	cb        avahi.EventCB
	groups    []*fakeGroup
	browsers  []*fakeBrowser
	signals   chan fakeSignal
	quit      chan struct{}
	setups    int
}

func (d *fakeDaemon) newServer() avahi.ServerInterface {
	d.mu.Lock()
	defer d.mu.Unlock()
	s := &fakeAvahiServer{d: d, id: len(d.servers)}
	d.servers = append(d.servers, s)
	return s
}

func (s *fakeAvahiServer) isConnected() bool {
	s.st.Lock()
	defer s.st.Unlock()
	return s.connected
}

func (s *fakeAvahiServer) Setup(cb avahi.EventCB) error {
	d := s.d
	d.mu.Lock()
	ok := d.available
	if d.failNext > 0 {
		d.failNext--
		ok = false
	}
	d.mu.Unlock()
	d.x.Ev("av-setup", fmt.Sprint(ok), "", s.id)
	if !ok {
		d.x.S.Fault("avahi-connect-failed")
		return errors.New("dbus: avahi daemon not available")
	}
	s.st.Lock()
	s.connected = true
	s.cb = cb
	s.setups++
	s.signals = make(chan fakeSignal, 64)
	s.quit = make(chan struct{})
	s.st.Unlock()
	return nil
}

func (s *fakeAvahiServer) Start() {
	s.d.x.Ev("av-start", "", "", s.id)
	s.st.Lock()
	sig, quit := s.signals, s.quit
	s.st.Unlock()
	// the signal handling goroutine of go-avahi (handleSignals)
	simrt.Go("avahi-signals", func() {
		for {
			cq, cs := simrt.RecvC(quit), simrt.RecvC(sig)
			switch simrt.Select("avahi-signals", false, cq, cs) {
			case 0:
				return
			case 1:
				s.dispatch(cs.Val)
			}
		}
	})
}

// dispatch delivers one browse result like go-avahi's handleSignals does:
// holding the server mutex while sending on the browser's channel.
func (s *fakeAvahiServer) dispatch(f fakeSignal) {
	s.mutex.Lock()
	defer s.mutex.Unlock()
	s.st.Lock()
	bs := append([]*fakeBrowser(nil), s.browsers...)
	conn := s.connected
	s.st.Unlock()
	if !conn {
		return
	}
	for _, b := range bs {
		if b.freed {
			continue
		}
		if f.remove {
			if b.remove != nil {
				simrt.Send("avahi-item-remove", b.remove, f.svc)
			}
		} else if b.add != nil {
			simrt.Send("avahi-item-new", b.add, f.svc)
		}
	}
}

func (s *fakeAvahiServer) Shutdown() {
	s.d.x.Ev("av-shutdown", "", "", s.id)
	s.st.Lock()
	q := s.quit
	s.quit = nil
	s.st.Unlock()
	if q != nil {
		// like go-avahi: hand the quit signal to the signal goroutine, then close
		simrt.Send("avahi-quit", q, struct{}{})
		close(q)
	}
	s.shutdown()
}

// shutdown = go-avahi Server.shutdown: frees all emitters, closes the
// connection and reports Disconnected on a new goroutine.
func (s *fakeAvahiServer) shutdown() {
	s.mutex.Lock()
	defer s.mutex.Unlock()
	s.st.Lock()
	for _, g := range s.groups {
		g.Free()
	}
	for _, b := range s.browsers {
		b.Free()
	}
	s.groups, s.browsers = nil, nil
	was := s.connected
	s.connected = false
	cb := s.cb
	s.st.Unlock()
	if was && cb != nil {
		simrt.Go("avahi-disconnected-cb", func() { cb(avahi.Disconnected) })
	}
}

func (s *fakeAvahiServer) EntryGroupNew() (avahi.EntryGroupInterface, error) {
	s.mutex.Lock()
	defer s.mutex.Unlock()
	if !s.isConnected() {
		s.d.x.Ev("av-entrygroup-new", "failed", "", s.id)
		return nil, errors.New("dbus: connection closed")
	}
	s.d.mu.Lock()
	s.d.nextPath++
	p := dbus.ObjectPath(fmt.Sprintf("/Client%d/EntryGroup%d", s.id, s.d.nextPath))
	s.d.mu.Unlock()
	g := &fakeGroup{srv: s, path: p}
	s.st.Lock()
	s.groups = append(s.groups, g)
	s.st.Unlock()
	s.d.x.Ev("av-entrygroup-new", "ok", "", s.id)
	return g, nil
}

func (s *fakeAvahiServer) EntryGroupFree(r avahi.EntryGroupInterface) {
	s.mutex.Lock()
	defer s.mutex.Unlock()
	g, _ := r.(*fakeGroup)
	if g == nil {
		return
	}
	g.Free()
	g.committed = false
	s.st.Lock()
	for i, e := range s.groups {
		if e == g {
			s.groups = append(s.groups[:i], s.groups[i+1:]...)
			break
		}
	}
	s.st.Unlock()
	s.d.x.Ev("av-entrygroup-free", "", "", s.id)
}

func (s *fakeAvahiServer) ServiceBrowserNew(addChan, removeChan chan avahi.Service, iface, protocol int32, serviceType string, domain string, flags uint32) (avahi.ServiceBrowserInterface, error) {
	s.mutex.Lock()
	if !s.isConnected() {
		s.mutex.Unlock()
		return nil, errors.New("dbus: connection closed")
	}
	s.d.mu.Lock()
	s.d.nextPath++
	p := dbus.ObjectPath(fmt.Sprintf("/Client%d/ServiceBrowser%d", s.id, s.d.nextPath))
	var known []avahi.Service
	for _, sv := range s.d.services {
		known = append(known, sv)
	}
	s.d.mu.Unlock()
	b := &fakeBrowser{srv: s, path: p, add: addChan, remove: removeChan}
	s.st.Lock()
	s.browsers = append(s.browsers, b)
	s.st.Unlock()
	s.mutex.Unlock()
	s.d.x.Ev("av-browser-new", "", "", s.id)
	// the daemon reports what it already knows
	sortServices(known)
	s.st.Lock()
	sig := s.signals
	s.st.Unlock()
	for _, sv := range known {
		select {
		case sig <- fakeSignal{svc: sv}:
		default:
		}
	}
	return b, nil
}

func (s *fakeAvahiServer) ServiceBrowserFree(r avahi.ServiceBrowserInterface) {
	s.mutex.Lock()
	defer s.mutex.Unlock()
	b, _ := r.(*fakeBrowser)
	if b == nil {
		return
	}
	b.Free()
	s.st.Lock()
	for i, e := range s.browsers {
		if e == b {
			s.browsers = append(s.browsers[:i], s.browsers[i+1:]...)
			break
		}
	}
	s.st.Unlock()
	s.d.x.Ev("av-browser-free", "", "", s.id)
}

func (s *fakeAvahiServer) ResolveService(iface, protocol int32, name, serviceType, domain string, aprotocol int32, flags uint32) (avahi.Service, error) {
	s.d.mu.Lock()
	defer s.d.mu.Unlock()
	sv, ok := s.d.services[name]
	if !ok || !s.d.resolveOK || !s.isConnected() {
		return avahi.Service{}, errors.New("resolve failed")
	}
	return sv, nil
}

func (s *fakeAvahiServer) GetAPIVersion() (int32, error) {
	if !s.isConnected() {
		return 0, errors.New("dbus: connection closed")
	}
	return 516, nil
}

// liveBrowsers / committedGroups: what the daemon currently holds for this client
func (s *fakeAvahiServer) liveBrowsers() int {
	s.st.Lock()
	defer s.st.Unlock()
	n := 0
	for _, b := range s.browsers {
		if !b.freed {
			n++
		}
	}
	if !s.connected {
		return 0
	}
	return n
}

func (s *fakeAvahiServer) committedTxt() []string {
	s.st.Lock()
	defer s.st.Unlock()
	if !s.connected {
		return nil
	}
	var out []string
	for _, g := range s.groups {
		if g.committed && !g.freed {
			out = append(out, strings.Join(g.txt, ";"))
		}
	}
	return out
}

func sortServices(l []avahi.Service) {
	for i := 1; i < len(l); i++ {
		for j := i; j > 0 && l[j].Name < l[j-1].Name; j-- {
			l[j], l[j-1] = l[j-1], l[j]
		}
	}
}

// ---- harness-side daemon events

func (d *fakeDaemon) disconnect() {
	d.mu.Lock()
	srvs := append([]*fakeAvahiServer(nil), d.servers...)
	d.mu.Unlock()
	d.x.S.Fault("avahi-disconnect")
	for _, s := range srvs {
		if s.isConnected() {
			s.st.Lock()
			q := s.quit
			s.quit = nil
			s.st.Unlock()
			if q != nil {
				close(q)
			}
			s.shutdown()
		}
	}
}

func (d *fakeDaemon) publish(sv avahi.Service, remove bool) {
	d.mu.Lock()
	if remove {
		delete(d.services, sv.Name)
	} else {
		d.services[sv.Name] = sv
	}
	srvs := append([]*fakeAvahiServer(nil), d.servers...)
	d.mu.Unlock()
	for _, s := range srvs {
		s.st.Lock()
		sig, conn := s.signals, s.connected
		s.st.Unlock()
		if conn && sig != nil {
			select {
			case sig <- fakeSignal{svc: sv, remove: remove}:
			default:
			}
		}
	}
}

// ---- the rest of avahi.ServerInterface is not used by ship-go

var errNotImpl = errors.New("not implemented by the fake avahi daemon")

func (s *fakeAvahiServer) ResolveHostName(iface, protocol int32, name string, aprotocol int32, flags uint32) (avahi.HostName, error) {
	return avahi.HostName{}, errNotImpl
}
func (s *fakeAvahiServer) ResolveAddress(iface, protocol int32, address string, flags uint32) (avahi.Address, error) {
	return avahi.Address{}, errNotImpl
}
func (s *fakeAvahiServer) DomainBrowserNew(iface, protocol int32, domain string, btype int32, flags uint32) (avahi.DomainBrowserInterface, error) {
	return nil, errNotImpl
}
func (s *fakeAvahiServer) DomainBrowserFree(r avahi.DomainBrowserInterface) {}
func (s *fakeAvahiServer) ServiceTypeBrowserNew(iface, protocol int32, domain string, flags uint32) (avahi.ServiceTypeBrowserInterface, error) {
	return nil, errNotImpl
}
func (s *fakeAvahiServer) ServiceTypeBrowserFree(r avahi.ServiceTypeBrowserInterface) {}
func (s *fakeAvahiServer) ServiceResolverNew(iface, protocol int32, name, serviceType, domain string, aprotocol int32, flags uint32) (avahi.ServiceResolverInterface, error) {
	return nil, errNotImpl
}
func (s *fakeAvahiServer) ServiceResolverFree(r avahi.ServiceResolverInterface) {}
func (s *fakeAvahiServer) HostNameResolverNew(iface, protocol int32, name string, aprotocol int32, flags uint32) (avahi.HostNameResolverInterface, error) {
	return nil, errNotImpl
}
func (s *fakeAvahiServer) AddressResolverNew(iface, protocol int32, address string, flags uint32) (avahi.AddressResolverInterface, error) {
	return nil, errNotImpl
}
func (s *fakeAvahiServer) AddressResolverFree(r avahi.AddressResolverInterface) {}
func (s *fakeAvahiServer) RecordBrowserNew(iface, protocol int32, name string, class uint16, recordType uint16, flags uint32) (avahi.RecordBrowserInterface, error) {
	return nil, errNotImpl
}
func (s *fakeAvahiServer) RecordBrowserFree(r avahi.RecordBrowserInterface)   {}
func (s *fakeAvahiServer) GetAlternativeHostName(name string) (string, error) { return "", errNotImpl }
func (s *fakeAvahiServer) GetAlternativeServiceName(name string) (string, error) {
	return "", errNotImpl
}
func (s *fakeAvahiServer) GetDomainName() (string, error)        { return "local", nil }
func (s *fakeAvahiServer) GetHostName() (string, error)          { return "host", nil }
func (s *fakeAvahiServer) GetHostNameFqdn() (string, error)      { return "host.local", nil }
func (s *fakeAvahiServer) GetLocalServiceCookie() (int32, error) { return 0, nil }
func (s *fakeAvahiServer) GetNetworkInterfaceIndexByName(name string) (int32, error) {
	return 0, errNotImpl
}
func (s *fakeAvahiServer) GetNetworkInterfaceNameByIndex(index int32) (string, error) {
	return "", errNotImpl
}
func (s *fakeAvahiServer) GetState() (int32, error)             { return 2, nil }
func (s *fakeAvahiServer) GetVersionString() (string, error)    { return "fake", nil }
func (s *fakeAvahiServer) IsNSSSupportAvailable() (bool, error) { return false, nil }
func (s *fakeAvahiServer) SetServerName(name string) error      { return nil }
