//go:build verif

package harness

import (
	"time"

	"github.com/enbility/ship-go/api"
	"github.com/enbility/ship-go/ship"
	"github.com/enbility/ship-go/ws"

	"verif/simnet"
	"verif/simrt"
)

// ship2 is the SHIP2 engine: a client-role and a server-role ShipConnection,
// each on a real ws.WebsocketConnection, joined by a simulated TCP pair.
type ship2End struct {
	name  string // "A" (client) or "B" (server)
	prov  *stubProvider
	conn  *ship.ShipConnection
	wc    *ws.WebsocketConnection
	nc    *simnet.Conn
	ready chan struct{}
	local string // local SHIP ID
}

type ship2 struct {
	x    *Ctx
	A, B *ship2End
}

type ship2Opts struct {
	storedA, storedB string // what each side has stored as the other's SHIP ID
	observeWs        bool   // put a forwarding shim between ws and ship (records deliveries)
}

func newShip2(x *Ctx, o ship2Opts) *ship2 {
	s := &ship2{x: x}
	cl, sv := x.Net.Pipe("A", "B")
	s.A = &ship2End{name: "A", nc: cl, ready: make(chan struct{}), local: "SHIPID-A", prov: &stubProvider{x: x, name: "A", paired: true, allowWaiting: true}}
	s.B = &ship2End{name: "B", nc: sv, ready: make(chan struct{}), local: "SHIPID-B", prov: &stubProvider{x: x, name: "B", allowWaiting: true}}
	// the hub creates the connection (its reader starts at once), registers it,
	// tells the application and only then calls Run(): the peer's first message
	// may arrive before Run()
	late := map[string]time.Duration{}
	if x.Feat(FeatLateRun) {
		gaps := []time.Duration{0, 0, 0, time.Millisecond, 50 * time.Millisecond, 2 * time.Second}
		late["A"] = gaps[x.Choose("late-run-A", len(gaps))]
		late["B"] = gaps[x.Choose("late-run-B", len(gaps))]
	}
	start := func(e *ship2End, client bool, peerSki, stored string) {
		x.Go(e.name+":setup", func() {
			var err error
			var wsc interface{}
			_ = wsc
			if client {
				c, e2 := wsClientSide(e.nc)
				err = e2
				if err == nil {
					e.wc = ws.NewWebsocketConnection(c, peerSki)
				}
			} else {
				c, e2 := wsServerSide(e.nc)
				err = e2
				if err == nil {
					e.wc = ws.NewWebsocketConnection(c, peerSki)
				}
			}
			if err != nil {
				x.HarnessError(e.name + " websocket handshake: " + err.Error())
				return
			}
			role := ship.ShipRoleServer
			if client {
				role = ship.ShipRoleClient
			}
			var dw api.WebsocketDataWriterInterface = e.wc
			if o.observeWs {
				dw = &wsInitShim{e.wc, x}
			}
			e.conn = ship.NewConnectionHandler(e.prov, dw, role, e.local, peerSki, stored)
			close(e.ready)
			if d := late[e.name]; d > 0 {
				x.Probe("run-delayed-after-creation")
				simrt.Sleep(d)
			}
			e.conn.Run()
		})
	}
	start(s.A, true, "ski-b", o.storedA)
	start(s.B, false, "ski-a", o.storedB)
	return s
}

func (s *ship2) waitReady() {
	simrt.Recv("readyA", s.A.ready)
	simrt.Recv("readyB", s.B.ready)
}

// endState summarises one endpoint from the recorded history.
type endState struct {
	completed    bool
	completedSeq int
	closed       int
	setups       int
	shipIDs      []string
	lastState    int
	states       []int
}

func (s *ship2) summarise(name string) endState {
	var st endState
	for _, e := range s.x.Events() {
		if e.A != name {
			continue
		}
		switch e.Kind {
		case "state":
			st.states = append(st.states, e.N)
			st.lastState = e.N
			if e.N == 38 {
				st.completed = true
				st.completedSeq = e.Seq
			}
		case "closed":
			st.closed++
		case "setup":
			st.setups++
		case "shipid":
			st.shipIDs = append(st.shipIDs, e.B)
		}
	}
	return st
}

var arbitraryLatencies = []time.Duration{0, 0, time.Second, 9900 * time.Millisecond, 10100 * time.Millisecond, 31 * time.Second, 61 * time.Second, 130 * time.Second, 5 * time.Millisecond}
