//go:build verif

package harness

import (
	"testing"
	"time"
)

// Shrink minimises the choice tape of a violating run: shorter, more zeros
// ("0 is the boring choice"), smaller values - as long as the same violation
// signature persists.
func Shrink(t *testing.T, spec RunSpec, wantSig string, budget time.Duration) ([]int, RunResult, int) {
	start := time.Now()
	tries := 0
	var base RunResult
	if spec.Replay == nil {
		base = Execute(t, spec)
	} else {
		base = Execute(t, spec)
	}
	if base.Outcome != "violation" {
		return base.Tape, base, tries
	}
	if wantSig == "" {
		wantSig = base.Violations[0].Signature
	}
	cur := append([]int{}, base.Tape...)
	best := base
	test := func(cand []int) bool {
		if time.Since(start) > budget {
			return false
		}
		tries++
		s := spec
		s.Replay = append([]int{}, cand...)
		r := Execute(t, s)
		if r.Outcome == "violation" && hasSig(r, wantSig) {
			best = r
			return true
		}
		return false
	}
	// the replay itself must reproduce
	if !test(cur) {
		return cur, base, tries
	}
	trim := func() {
		// the run may not have consumed the whole tape
		if len(best.Tape) < len(cur) {
			cur = append([]int{}, best.Tape...)
		}
		for len(cur) > 0 && cur[len(cur)-1] == 0 {
			cur = cur[:len(cur)-1]
		}
	}
	trim()
	for progress := true; progress && time.Since(start) < budget; {
		progress = false
		// 1. cut the tail
		for n := len(cur) / 2; n >= 1; n /= 2 {
			for len(cur) > n {
				cand := cur[:len(cur)-n]
				if test(cand) {
					cur = append([]int{}, cand...)
					trim()
					progress = true
				} else {
					break
				}
			}
		}
		// 2. zero blocks
		for size := len(cur) / 2; size >= 1; size /= 2 {
			for off := 0; off < len(cur); off += size {
				end := off + size
				if end > len(cur) {
					end = len(cur)
				}
				nz := false
				for _, v := range cur[off:end] {
					if v != 0 {
						nz = true
					}
				}
				if !nz {
					continue
				}
				cand := append([]int{}, cur...)
				for i := off; i < end; i++ {
					cand[i] = 0
				}
				if test(cand) {
					cur = cand
					trim()
					progress = true
				}
			}
		}
		// 3. delete single entries (shifts later choices forward)
		for i := 0; i < len(cur) && time.Since(start) < budget; i++ {
			if cur[i] == 0 {
				continue
			}
			cand := append(append([]int{}, cur[:i]...), cur[i+1:]...)
			if test(cand) {
				cur = cand
				trim()
				progress = true
				i--
			}
		}
		// 4. lower values
		for i := 0; i < len(cur) && time.Since(start) < budget; i++ {
			for cur[i] > 1 {
				cand := append([]int{}, cur...)
				cand[i] = cur[i] / 2
				if test(cand) {
					cur = cand
					progress = true
					continue
				}
				cand[i] = cur[i] - 1
				if test(cand) {
					cur = cand
					progress = true
					continue
				}
				break
			}
		}
	}
	// final confirmation
	s := spec
	s.Replay = append([]int{}, cur...)
	s.KeepTrace = true
	final := Execute(t, s)
	if final.Outcome == "violation" && hasSig(final, wantSig) {
		return cur, final, tries
	}
	b := spec
	b.Replay = base.Tape
	b.KeepTrace = true
	return base.Tape, Execute(t, b), tries
}

// hasSig: a run may violate several clauses (known findings among them); the one
// looked for need not be the first.
func hasSig(r RunResult, sig string) bool {
	for _, v := range r.Violations {
		if v.Signature == sig {
			return true
		}
	}
	return false
}
