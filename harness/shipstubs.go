//go:build verif

package harness

import (
	"errors"
	"strconv"
	"strings"
	"sync"

	"github.com/enbility/ship-go/api"
	"github.com/enbility/ship-go/model"
)

// ---------------------------------------------------------------- frames
// Literal SHIP 1.0.1 frames (EEBUS JSON); the scripted peer never uses
// ship-go code to build its messages.

const (
	fInit          = "\x00\x00"
	fHelloReady    = "\x01{\"connectionHello\":[{\"phase\":\"ready\"},{\"waiting\":60000}]}"
	fHelloPending  = "\x01{\"connectionHello\":[{\"phase\":\"pending\"},{\"waiting\":60000}]}"
	fHelloProlong  = "\x01{\"connectionHello\":[{\"phase\":\"pending\"},{\"prolongationRequest\":true}]}"
	fHelloAborted  = "\x01{\"connectionHello\":[{\"phase\":\"aborted\"}]}"
	fProtAnnounce  = "\x01{\"messageProtocolHandshake\":[{\"handshakeType\":\"announceMax\"},{\"version\":[{\"major\":1},{\"minor\":0}]},{\"formats\":[{\"format\":[\"JSON-UTF8\"]}]}]}"
	fProtSelect    = "\x01{\"messageProtocolHandshake\":[{\"handshakeType\":\"select\"},{\"version\":[{\"major\":1},{\"minor\":0}]},{\"formats\":[{\"format\":[\"JSON-UTF8\"]}]}]}"
	fPinNone       = "\x01{\"connectionPinState\":[{\"pinState\":\"none\"}]}"
	fAccessReq     = "\x01{\"accessMethodsRequest\":[]}"
	fCloseAnnounce = "\x03{\"connectionClose\":[{\"phase\":\"announce\"},{\"maxTime\":500}]}"
	fCloseConfirm  = "\x03{\"connectionClose\":[{\"phase\":\"confirm\"}]}"
)

func fAccess(id string) string {
	return "\x01{\"accessMethods\":[{\"id\":" + strconv.Quote(id) + "}]}"
}

func fData(id int) string {
	return "\x02{\"data\":[{\"header\":[{\"protocolId\":\"ee1.0\"}]},{\"payload\":{\"datagram\":[{\"header\":[{\"msgCounter\":" + strconv.Itoa(id) + "}]},{\"payload\":[{\"x\":" + strconv.Itoa(id) + "}]}]}}]}"
}

func fHello(phase string, waiting int, prolong int) string {
	s := "\x01{\"connectionHello\":[{\"phase\":" + strconv.Quote(phase) + "}"
	if waiting >= 0 {
		s += ",{\"waiting\":" + strconv.Itoa(waiting) + "}"
	}
	switch prolong {
	case 1:
		s += ",{\"prolongationRequest\":true}"
	case 2:
		s += ",{\"prolongationRequest\":false}"
	}
	return s + "]}"
}

// classify names a frame written by the unit under test.
func classify(b []byte) string {
	if len(b) == 0 {
		return "empty"
	}
	s := string(b[1:])
	switch b[0] {
	case 0:
		return "init"
	case 1:
		switch {
		case strings.Contains(s, "connectionHello"):
			switch {
			case strings.Contains(s, "\"aborted\""):
				return "hello:aborted"
			case strings.Contains(s, "\"ready\""):
				return "hello:ready"
			case strings.Contains(s, "prolongationRequest"):
				return "hello:prolong"
			case strings.Contains(s, "\"pending\""):
				return "hello:pending"
			}
			return "hello:?"
		case strings.Contains(s, "messageProtocolHandshake"):
			if strings.Contains(s, "announceMax") {
				return "prot:announce"
			}
			if strings.Contains(s, "select") {
				return "prot:select"
			}
			return "prot:?"
		case strings.Contains(s, "connectionPinState"):
			return "pin"
		case strings.Contains(s, "accessMethodsRequest"):
			return "amreq"
		case strings.Contains(s, "accessMethods"):
			return "am"
		case strings.Contains(s, "\"error\""):
			return "proterr"
		}
		return "control:?"
	case 2:
		return "data"
	case 3:
		if strings.Contains(s, "announce") {
			return "close:announce"
		}
		if strings.Contains(s, "confirm") {
			return "close:confirm"
		}
		return "end:?"
	}
	return "type" + strconv.Itoa(int(b[0]))
}

// datagramID extracts the msgCounter of a SPINE payload handed to the reader.
func datagramID(b []byte) int {
	s := string(b)
	i := strings.Index(s, "\"msgCounter\":")
	if i < 0 {
		return -1
	}
	s = s[i+13:]
	j := 0
	for j < len(s) && s[j] >= '0' && s[j] <= '9' {
		j++
	}
	n, err := strconv.Atoi(s[:j])
	if err != nil {
		return -1
	}
	return n
}

// spinePayload is what an application hands to the SHIP data writer.
// spinePayloadSized is spinePayload with a filler member of n bytes.
func spinePayloadSized(id, n int) []byte {
	if n <= 0 {
		return spinePayload(id)
	}
	return []byte("{\"datagram\":{\"header\":{\"msgCounter\":" + strconv.Itoa(id) + "},\"payload\":{\"x\":" + strconv.Itoa(id) + ",\"filler\":\"" + strings.Repeat("f", n) + "\"}}}")
}

func spinePayload(id int) []byte {
	return []byte("{\"datagram\":{\"header\":{\"msgCounter\":" + strconv.Itoa(id) + "},\"payload\":{\"x\":" + strconv.Itoa(id) + "}}}")
}

// ---------------------------------------------------------------- provider

// stubProvider is the info provider (normally the hub) of one connection.
type stubProvider struct {
	x    *Ctx
	name string
	// quiet: an earlier connection of the process (warm-up), not the unit under test - no events
	quiet bool

	mu           sync.Mutex
	paired       bool
	autoAccept   bool
	allowWaiting bool
	writer       api.ShipConnectionDataWriterInterface
	// onSetup runs inside SetupRemoteDevice (the application's callback)
	onSetup func(w api.ShipConnectionDataWriterInterface)
	// onState runs inside HandleShipHandshakeStateUpdate
	onState func(st model.ShipState)
}

func (p *stubProvider) ev(kind, a, b string, n int) int {
	if p.quiet {
		return 0
	}
	return p.x.Ev(kind, a, b, n)
}

func (p *stubProvider) set(f func()) {
	p.mu.Lock()
	f()
	p.mu.Unlock()
}

func (p *stubProvider) IsRemoteServiceForSKIPaired(string) bool {
	p.mu.Lock()
	v := p.paired
	p.mu.Unlock()
	p.ev("q-paired", p.name, strconv.FormatBool(v), 0)
	return v
}

func (p *stubProvider) IsAutoAcceptEnabled() bool {
	p.mu.Lock()
	v := p.autoAccept
	p.mu.Unlock()
	p.ev("q-auto", p.name, strconv.FormatBool(v), 0)
	return v
}

func (p *stubProvider) HandleConnectionClosed(c api.ShipConnectionInterface, completed bool) {
	p.ev("closed", p.name, strconv.FormatBool(completed), 0)
}

func (p *stubProvider) ReportServiceShipID(ski string, id string) {
	p.ev("shipid", p.name, id, 0)
}

func (p *stubProvider) AllowWaitingForTrust(string) bool {
	p.mu.Lock()
	v := p.allowWaiting
	p.mu.Unlock()
	return v
}

func (p *stubProvider) HandleShipHandshakeStateUpdate(ski string, st model.ShipState) {
	p.ev("state", p.name, errStr(st.Error), int(st.State))
	if p.onState != nil {
		p.onState(st)
	}
}

func (p *stubProvider) SetupRemoteDevice(ski string, w api.ShipConnectionDataWriterInterface) api.ShipConnectionDataReaderInterface {
	p.ev("setup", p.name, "", 0)
	p.mu.Lock()
	p.writer = w
	p.mu.Unlock()
	if p.onSetup != nil {
		p.onSetup(w)
	}
	p.ev("setup-ret", p.name, "", 0)
	return &stubReader{x: p.x, name: p.name}
}

type stubReader struct {
	x    *Ctx
	name string
}

func (r *stubReader) HandleShipPayloadMessage(b []byte) {
	r.x.Ev("payload", r.name, "", datagramID(b))
}

// ---------------------------------------------------------------- transport stub

// stubWriter stands in for the websocket layer below one ShipConnection.
type stubWriter struct {
	x     *Ctx
	name  string
	quiet bool // see stubProvider.quiet

	mu       sync.Mutex
	reader   api.WebsocketDataReaderInterface
	closed   bool
	closeErr error
	nWrites  int
	failAt   int  // 1-based index of the write that fails (0 = none)
	failOnce bool // true: only that write fails, the transport stays open
	onTx     func(kind string, b []byte)
}

func (w *stubWriter) ev(kind, a, b string, n int) int {
	if w.quiet {
		return 0
	}
	return w.x.Ev(kind, a, b, n)
}

func (w *stubWriter) InitDataProcessing(r api.WebsocketDataReaderInterface) {
	w.mu.Lock()
	w.reader = r
	w.mu.Unlock()
}

var errStubClosed = errors.New("connection is closed")
var errStubWrite = errors.New("injected write failure")

func (w *stubWriter) WriteMessageToWebsocketConnection(b []byte) error {
	w.mu.Lock()
	if w.closed {
		w.mu.Unlock()
		w.ev("tx-rejected", w.name, classify(b), 0)
		return errStubClosed
	}
	w.nWrites++
	if w.failAt != 0 && w.nWrites == w.failAt {
		if !w.failOnce {
			w.closed = true
			w.closeErr = errStubWrite
		}
		w.mu.Unlock()
		w.x.S.Fault("ship-write-fail")
		w.ev("tx-failed", w.name, classify(b), w.nWrites)
		return errStubWrite
	}
	cb := w.onTx
	w.mu.Unlock()
	kind := classify(b)
	n := 0
	if kind == "data" {
		n = datagramID(b)
	}
	w.ev("tx", w.name, kind, n)
	if cb != nil {
		cb(kind, append([]byte(nil), b...))
	}
	return nil
}

func (w *stubWriter) CloseDataConnection(code int, reason string) {
	w.mu.Lock()
	already := w.closed
	w.closed = true
	w.mu.Unlock()
	w.ev("tclose", w.name, reason, code)
	_ = already
}

func (w *stubWriter) IsDataConnectionClosed() (bool, error) {
	w.mu.Lock()
	defer w.mu.Unlock()
	if w.closed {
		err := w.closeErr
		if err == nil {
			err = errStubClosed
		}
		return true, err
	}
	return false, nil
}

func (w *stubWriter) isClosed() bool {
	w.mu.Lock()
	defer w.mu.Unlock()
	return w.closed
}

func (w *stubWriter) writes() int {
	w.mu.Lock()
	defer w.mu.Unlock()
	return w.nWrites
}
