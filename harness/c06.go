//go:build verif

package harness

import (
	"fmt"
	"time"

	"github.com/enbility/ship-go/api"

	"verif/simnet"
	"verif/simrt"
)

func init() {
	register(&Scenario{Prop: "C06", Horizon: 3 * time.Hour, Steps: 150000, Setup: setupC06})
}

func setupC06(x *Ctx) {
	if x.Chance("c06-scripted", 0.4) {
		c06Scripted(x)
		return
	}
	c06Pair(x)
}

// (a) two real endpoints; every application sends datagrams with unique ids
// through the writer it received in SetupRemoteDevice - some from inside the
// callback (before the other side has completed), the rest from a sender task.
func c06Pair(x *Ctx) {
	x.SigAdd("engine=pair")
	lat := []time.Duration{0, time.Millisecond, 30 * time.Millisecond, 700 * time.Millisecond}[x.Choose("latency", 4)]
	jitter := x.Chance("jitter", 0.3)
	x.Net.Latency = func(*simnet.Conn) time.Duration {
		if jitter {
			return lat * time.Duration(1+x.S.ChooseBiased("lat-mult", 4, 0.5))
		}
		return lat
	}
	trust := Pick(x, "trustB", []string{"paired", "auto", "approve"})
	s := newShip2(x, ship2Opts{})
	if trust == "paired" {
		s.B.prov.paired = true
	}
	if trust == "auto" {
		s.B.prov.autoAccept = true
	}
	closeKind := PickB(x, "close", 0.6, []string{"none", "A-safe", "B-safe", "cut", "A-unsafe"})
	// the sending direction of A stalls for a while in the middle of its datagrams (the
	// peer's receive window is closed): shorter than the 10 s write deadline nothing may
	// be lost, longer the connection has to end
	stallFor := time.Duration(0)
	stallAfter := 0
	if x.Feat(FeatTransportStall) && x.Chance("transport-stall", 0.3) {
		stallFor = []time.Duration{300 * time.Millisecond, 2500 * time.Millisecond, 6 * time.Second, 9500 * time.Millisecond, 12 * time.Second}[x.Choose("stall-for", 5)]
		stallAfter = x.Choose("stall-after", 6)
	}
	type plan struct{ inCallback, later int }
	plans := map[string]*plan{
		"A": {x.Choose("cbA", 4), x.Choose("laterA", 27)},
		"B": {x.Choose("cbB", 4), x.Choose("laterB", 27)},
	}
	base := map[string]int{"A": 1000, "B": 2000}
	sendersDone := make(chan struct{}, 2)
	for _, e := range []*ship2End{s.A, s.B} {
		e := e
		p := plans[e.name]
		writerCh := make(chan api.ShipConnectionDataWriterInterface, 1)
		e.prov.onSetup = func(w api.ShipConnectionDataWriterInterface) {
			for i := 0; i < p.inCallback; i++ {
				id := base[e.name] + i
				x.Ev("sent", e.name, "callback", id)
				w.WriteShipMessageWithPayload(spinePayload(id))
			}
			writerCh <- w
		}
		x.Go(e.name+":sender", func() {
			defer func() { sendersDone <- struct{}{} }()
			var w api.ShipConnectionDataWriterInterface
			select {
			case w = <-writerCh:
			default:
				w = simrt.Recv("writer", writerCh)
			}
			for i := 0; i < p.later; i++ {
				if x.Chance("send-gap", 0.15) {
					simrt.Sleep(time.Duration(1+x.Choose("gap", 5)) * 20 * time.Millisecond)
				}
				id := base[e.name] + p.inCallback + i
				size := 0
				if x.Feat(FeatMoreInputs) {
					// datagrams around and far beyond the websocket buffer / SHIP fragment size
					size = []int{0, 0, 0, 900, 1100, 5000, 70000}[x.S.ChooseBiased("datagram-size", 7, 0.5)]
				}
				if e.name == "A" && stallFor > 0 && i == stallAfter {
					x.Probe("transport-stall")
					x.Ev("stall", "A", stallFor.String(), 0)
					s.A.nc.SetStall(true)
					x.S.After(stallFor, "unstall A", "", func() { s.A.nc.SetStall(false) })
				}
				x.Ev("sent", e.name, "task", id)
				w.WriteShipMessageWithPayload(spinePayloadSized(id, size))
			}
		})
	}
	if trust == "approve" {
		x.Go("B:user", func() {
			s.waitReady()
			for i := 0; i < 600; i++ {
				st, _ := s.B.conn.ShipHandshakeState()
				if st == 11 {
					break
				}
				simrt.Sleep(100 * time.Millisecond)
			}
			simrt.Sleep(time.Duration(x.Choose("approve-delay", 4)) * time.Second)
			s.B.prov.set(func() { s.B.prov.paired = true })
			s.B.conn.ApprovePendingHandshake()
		})
	}
	x.Go("X:end", func() {
		s.waitReady()
		if closeKind == "none" {
			simrt.Recv("sender", sendersDone)
			simrt.Recv("sender", sendersDone)
		} else {
			simrt.Sleep(time.Duration(x.Choose("close-at", 40)) * 50 * time.Millisecond)
			x.Ev("closing", closeKind, "", 0)
			switch closeKind {
			case "A-safe":
				s.A.conn.CloseConnection(true, 0, "bye")
			case "B-safe":
				s.B.conn.CloseConnection(true, 0, "bye")
			case "A-unsafe":
				s.A.conn.CloseConnection(false, 4500, "bye")
			case "cut":
				s.A.nc.Cut()
			}
		}
		simrt.Sleep(3 * time.Minute)
		x.S.Stop("done")
	})
	x.OnFinal(func() {
		a, b := s.summarise("A"), s.summarise("B")
		closed := a.closed > 0 || b.closed > 0
		for _, dir := range [][2]string{{"A", "B"}, {"B", "A"}} {
			from, to := dir[0], dir[1]
			var sent, got []int
			setupRet := 0
			for _, e := range x.Events() {
				switch {
				case e.Kind == "sent" && e.A == from:
					sent = append(sent, e.N)
				case e.Kind == "setup-ret" && e.A == to:
					setupRet = e.Seq
				case e.Kind == "payload" && e.A == to:
					if setupRet == 0 {
						x.Violate("payload-before-setup", to, fmt.Sprintf("%s received datagram %d before its SetupRemoteDevice returned", to, e.N))
						return
					}
					got = append(got, e.N)
				}
			}
			if !checkPrefix(x, from+"->"+to, sent, got, !closed) {
				return
			}
			x.SigAdd(fmt.Sprintf("%s>%s:%d/%d", from, to, len(got), len(sent)))
		}
		if a.completed && b.completed {
			x.NonTrivial()
			x.Probe("both-completed")
		}
		if plans["A"].inCallback > 0 || plans["B"].inCallback > 0 {
			x.Probe("sent-inside-setup-callback")
		}
		x.SetSample(map[string]any{"engine": "pair", "trustB": trust, "close": closeKind, "latency": lat.String(), "A_sends": plans["A"], "B_sends": plans["B"], "closed": closed})
	})
}

// checkPrefix: got must be a duplicate-free, gap-free prefix of sent (all of
// it when the connection stayed open).
func checkPrefix(x *Ctx, dir string, sent, got []int, mustBeComplete bool) bool {
	if len(got) > len(sent) {
		x.Violate("datagram-duplicated-or-invented", dir, fmt.Sprintf("%s: sent %v, delivered %v", dir, sent, got))
		return false
	}
	for i := range got {
		if got[i] != sent[i] {
			x.Violate("datagram-order-or-gap", dir, fmt.Sprintf("%s: sent %v, delivered %v (position %d differs)", dir, sent, got, i))
			return false
		}
	}
	if mustBeComplete && len(got) != len(sent) {
		x.Violate("datagram-lost", dir, fmt.Sprintf("%s: the connection stayed open, sent %v, delivered only %v", dir, sent, got))
		return false
	}
	return true
}

// (b) one real endpoint, a scripted peer that injects datagrams at every
// handshake position (before, between and after the handshake messages).
func c06Scripted(x *Ctx) {
	x.SigAdd("engine=scripted")
	o := ship1Opts{
		dataRate: 0.45, clockRate: 0.03, maxEvents: 36,
		userPlans:  []string{"none", "approve"},
		helloModes: []string{"ready"},
		trustModes: []string{"paired", "auto", "none"},
		storedIDs:  []string{"", "PEERID"},
		presented:  []string{fAccess("PEERID")},
		roles:      []string{"server", "client"},
	}
	s := newShip1(x, o)
	x.OnFinal(func() {
		var injected, got []int
		setupRet, completed, closed := 0, false, false
		early := 0
		for _, e := range x.Events() {
			switch e.Kind {
			case "data-injected":
				injected = append(injected, e.N)
				if !completed {
					early++
				}
			case "setup-ret":
				setupRet = e.Seq
			case "state":
				if e.N == 38 {
					completed = true
				}
			case "closed":
				closed = true
			case "payload":
				if setupRet == 0 {
					x.Violate("payload-before-setup", "U", fmt.Sprintf("datagram %d delivered before SetupRemoteDevice returned", e.N))
					return
				}
				got = append(got, e.N)
			}
		}
		if !completed {
			if len(got) > 0 {
				x.Violate("payload-before-completion", "", fmt.Sprintf("datagrams %v delivered although the handshake never completed", got))
			}
			return
		}
		if !checkPrefix(x, "peer->U", injected, got, !closed) {
			return
		}
		x.NonTrivial()
		if early > 0 {
			x.Probe("buffered-before-complete")
		}
		x.SigAdd(fmt.Sprintf("early=%d total=%d", early, len(injected)))
		x.SetSample(map[string]any{"engine": "scripted", "role": s.role, "injected": injected, "delivered": got, "injected_before_completion": early})
	})
}
