//go:build verif

package harness

import (
	"fmt"
	"sync/atomic"
	"time"

	"verif/simnet"
	"verif/simrt"
)

func init() {
	register(&Scenario{Prop: "C05", Horizon: 2 * time.Hour, Steps: 400000, Setup: setupC05})
}

var c05Disturb = []string{"disconnect-A", "disconnect-B", "cut", "cut", "half-open", "mdns-outage", "unsafe-close", "crash-B", "crash-B-silent", "restart-B", "crash-A"}

func setupC05(x *Ctx) {
	r := newHubRig(x)
	a, b := r.addNode("A"), r.addNode("B")
	third := x.Chance("bystander", 0.2)
	var c *hubNode
	if third {
		c = r.addNode("C")
	}
	lat := []time.Duration{0, time.Millisecond, 20 * time.Millisecond, 300 * time.Millisecond}[x.Choose("latency", 4)]
	asym := x.Chance("asym-latency", 0.25)
	// a partition that heals: whatever is sent (connection requests included) while
	// it lasts arrives when it ends - what TCP retransmission does
	var partitionUntil atomic.Int64
	x.Net.Latency = func(cn *simnet.Conn) time.Duration {
		d := lat
		if asym && cn.Node() == "A" {
			d = lat * 3
		}
		if now, until := x.S.Now(), time.Duration(partitionUntil.Load()); now < until && until-now > d {
			d = until - now
		}
		return d
	}
	mdnsDelay := []time.Duration{0, 10 * time.Millisecond, time.Second, 4 * time.Second}[x.Choose("mdns-delay", 4)]
	r.eth.Delay = func() time.Duration {
		if mdnsDelay == 0 {
			return 0
		}
		return mdnsDelay * time.Duration(1+x.S.ChooseBiased("mdns-jitter", 3, 0.6)) / 2
	}
	startDelayB := []time.Duration{0, 0, time.Second, 5 * time.Second, 30 * time.Second}[x.Choose("start-delay-B", 5)]
	regBeforeStart := x.Chance("register-before-start", 0.5)
	// a reset placed inside a handshake: after the n-th chunk delivered on the k-th connection
	cutConn, cutChunk := 0, 0
	if x.Chance("cut-in-handshake", 0.35) {
		cutConn = 1 + x.Choose("cut-conn", 3)
		cutChunk = 1 + x.Choose("cut-chunk", 26)
		x.Net.OnDeliver = func(cn *simnet.Conn) {
			if cn.ID() == cutConn && cn.Delivered+cn.Peer().Delivered == cutChunk {
				x.Probe("cut-in-handshake")
				cn.Cut()
			}
		}
	}
	// a reset between "connection object created, pumps running" and "registered"
	if x.Feat(FeatCutAtRegister) && x.Chance("cut-at-register", 0.12) {
		k := 1 + x.Choose("cut-at-register-k", 4)
		stall := x.Chance("stall-at-register", 0.5)
		// stall only: the connection is registered and run late (slow application
		// callback), its reader is active all the while
		noCut := x.Feat(FeatLateRun) && x.Chance("stall-only-at-register", 0.4)
		if noCut {
			stall = true
		}
		r.atRegister = func(node string, n int) {
			if n == k {
				if noCut {
					x.Probe("stall-at-register")
					simrt.Sleep(20 * time.Millisecond)
					return
				}
				x.Probe("cut-at-register")
				r.cutNewest(node)
				if stall {
					// the registering goroutine is descheduled for a moment
					simrt.Sleep(time.Millisecond)
				}
			}
		}
	}
	nDist := x.Biased("disturbances", 5, 0.35)
	var dist []string
	kinds := c05Disturb
	if !x.Feat(FeatCrash) {
		kinds = c05Disturb[:7]
	} else if x.Feat(FeatPartition) {
		kinds = append(append([]string(nil), c05Disturb...), "partition-heal")
		if x.Feat(FeatNetVariety) {
			kinds = append(kinds, "write-stall")
		}
	}
	for i := 0; i < nDist; i++ {
		dist = append(dist, kinds[x.Choose("disturbance", len(kinds))])
	}
	x.SigAdd(fmt.Sprintf("lat=%v", lat), fmt.Sprintf("mdns=%v", mdnsDelay), fmt.Sprintf("regBefore=%v", regBeforeStart), fmt.Sprintf("dist=%v cut=%d/%d", dist, cutConn, cutChunk))

	up := map[string]chan struct{}{"A": make(chan struct{}), "B": make(chan struct{})}
	startNode := func(n *hubNode, peer *hubNode, delay time.Duration) {
		x.Go(n.name+":start", func() {
			defer close(up[n.name])
			n.create()
			simrt.Recv("peer-created", peer.ready)
			if delay > 0 {
				simrt.Sleep(delay)
			}
			if regBeforeStart {
				n.hub.RegisterRemoteSKI(peer.ski)
				x.Ev("op-register", n.name, peer.name, 0)
			}
			n.hub.Start()
			x.Ev("op-start", n.name, "", 0)
			if !regBeforeStart {
				if d := x.Choose("register-delay", 3); d > 0 {
					simrt.Sleep(time.Duration(d) * 700 * time.Millisecond)
				}
				n.hub.RegisterRemoteSKI(peer.ski)
				x.Ev("op-register", n.name, peer.name, 0)
			}
		})
	}
	startNode(a, b, 0)
	startNode(b, a, startDelayB)
	if third {
		x.Go("C:start", func() {
			c.create()
			c.hub.Start()
		})
	}

	x.Go("X:script", func() {
		simrt.Recv("a", a.ready)
		simrt.Recv("b", b.ready)
		// the application has started both hubs and registered the peers (a hub
		// is not started again after its Shutdown)
		simrt.Recv("a-up", up["A"])
		simrt.Recv("b-up", up["B"])
		for i, d := range dist {
			simrt.Sleep(time.Duration(1+x.Choose("dist-gap", 40)) * time.Second)
			x.Ev("disturbance", d, "", i)
			conns := x.Net.Conns()
			var live []*simnet.Conn
			for _, cn := range conns {
				if cn.Side() == "c" && !cn.Closed() && !cn.Peer().Closed() && !cn.Broken() {
					live = append(live, cn)
				}
			}
			switch d {
			case "disconnect-A":
				a.on("op", func() { a.hub.DisconnectSKI(b.ski, "test") })
			case "disconnect-B":
				b.on("op", func() { b.hub.DisconnectSKI(a.ski, "test") })
			case "unsafe-close":
				a.on("op", func() {
					for _, cn := range a.hub.VerifConnections() {
						cn.CloseConnection(false, 4500, "x")
					}
				})
			case "cut":
				for _, cn := range live {
					cn.Cut()
				}
			case "half-open":
				for _, cn := range live {
					cn.SetBlackhole(true)
					x.Probe("half-open")
				}
			case "crash-B", "crash-B-silent", "crash-A":
				// the peer process dies (killed: sockets reset; power loss: silence)
				// and a new instance with the same certificate comes up later; the
				// application registers its peer again
				n, peer := b, a
				if d == "crash-A" {
					n, peer = a, b
				}
				n.crash(d != "crash-B-silent")
				x.Probe(d)
				simrt.Sleep(time.Duration([]int{0, 1, 5, 30, 130, 200}[x.Choose("downtime", 6)]) * time.Second)
				n.restart(peer)
			case "restart-B":
				// orderly restart: Shutdown, then a new hub in the same process
				b.on("op", func() { b.hub.Shutdown() })
				x.Ev("op-shutdown", "B", "", 0)
				x.Probe(d)
				simrt.Sleep(time.Duration([]int{0, 1, 5, 30, 130}[x.Choose("downtime", 5)]) * time.Second)
				b.restart(a)
			case "write-stall":
				// the sending direction of every connection of A blocks for a while (peer
				// window closed); beyond the 10 s write deadline the connection must go
				d := time.Duration([]int{2, 8, 12, 30}[x.Choose("stall-s", 4)]) * time.Second
				for _, cn := range live {
					cn := cn
					if cn.Node() == "A" {
						cn.SetStall(true)
						x.S.After(d, "unstall "+cn.Name(), "", func() { cn.SetStall(false) })
					} else if cn.Peer().Node() == "A" {
						p := cn.Peer()
						p.SetStall(true)
						x.S.After(d, "unstall "+p.Name(), "", func() { p.SetStall(false) })
					}
				}
				x.Probe("write-stall")
				simrt.Sleep(d)
			case "partition-heal":
				d := time.Duration([]int{2, 20, 55, 70, 130}[x.Choose("partition-s", 5)]) * time.Second
				partitionUntil.Store(int64(x.S.Now() + d))
				x.S.Fault("partition")
				x.Probe("partition-heal")
				simrt.Sleep(d)
			case "mdns-outage":
				r.eth.Down.Store(true)
				simrt.Sleep(time.Duration(5+x.Choose("outage", 60)) * time.Second)
				r.eth.Down.Store(false)
				r.eth.resync()
			}
		}
		x.Ev("quiet", "", "", 0)
		// 110 s ping/pong detection + dial back-off 20 s + dial timeouts, several times over
		simrt.Sleep(300 * time.Second)
		checkConverged(x, r, a, b)
		if !x.S.Stopped() {
			x.S.Stop("done")
		}
	})
	x.SetSample(map[string]any{"latency": lat.String(), "asymmetric": asym, "mdns_delay": mdnsDelay.String(), "start_delay_B": startDelayB.String(), "register_before_start": regBeforeStart, "disturbances": dist, "bystander": third, "reset_after_chunk": fmt.Sprintf("connection %d, chunk %d", cutConn, cutChunk)})
}

// checkConverged is the C05 oracle (runs in a harness task after the quiet period).
func checkConverged(x *Ctx, r *hubRig, a, b *hubNode) {
	// exactly one transport connection between A and B is open at both ends
	var open []*simnet.Conn
	for _, cn := range x.Net.Conns() {
		if cn.Side() != "c" {
			continue
		}
		ab := (cn.Node() == a.name && cn.PeerNode() == b.name) || (cn.Node() == b.name && cn.PeerNode() == a.name)
		if !ab {
			continue
		}
		if x.S.Frozen(cn.Group()) || x.S.Frozen(cn.Peer().Group()) {
			// an endpoint of a crashed process: that socket no longer exists
			continue
		}
		if !cn.Closed() && !cn.Peer().Closed() {
			open = append(open, cn)
		}
	}
	dials := 0
	for _, e := range x.Events() {
		if e.Kind == "dial" {
			dials++
		}
	}
	if dials > 1 {
		x.Probe("redialled")
	}
	ca, cb := a.hub.VerifConnections(), b.hub.VerifConnections()
	desc := fmt.Sprintf("open transport connections A<->B: %d; registry A: %d entr(ies), registry B: %d; pairing A: %d, B: %d", len(open), len(ca), len(cb), a.hub.PairingDetailForSki(b.ski).State(), b.hub.PairingDetailForSki(a.ski).State())
	if len(open) == 0 {
		x.Violate("not-converged", "no-connection", "300 simulated s after the last disturbance there is no connection: "+desc)
		return
	}
	if len(open) > 1 {
		x.Violate("not-converged", "extra-connection", "more than one open connection: "+desc)
		return
	}
	if len(ca) != 1 || len(cb) != 1 || ca[b.ski] == nil || cb[a.ski] == nil {
		x.Violate("not-converged", "registry", "registries do not hold exactly the peer: "+desc)
		return
	}
	if sa, sb := a.hub.PairingDetailForSki(b.ski).State(), b.hub.PairingDetailForSki(a.ski).State(); sa != 7 || sb != 7 {
		x.Violate("not-converged", "not-completed", "handshake not completed on both sides: "+desc)
		return
	}
	// payloads flow in both directions through the writers handed to the applications
	wa, wb := a.app.writer(b.ski), b.app.writer(a.ski)
	if wa == nil || wb == nil {
		x.Violate("not-converged", "no-writer", "an application never got a data writer: "+desc)
		return
	}
	x.Ev("probe-send", "", "", 0)
	a.on("probe", func() { wa.WriteShipMessageWithPayload(spinePayload(777001)) })
	b.on("probe", func() { wb.WriteShipMessageWithPayload(spinePayload(777002)) })
	simrt.Sleep(5 * time.Second)
	gotA, gotB := false, false
	for _, e := range x.Events() {
		if e.Kind == "app-payload" && e.N == 777002 && e.A == a.name {
			gotA = true
		}
		if e.Kind == "app-payload" && e.N == 777001 && e.A == b.name {
			gotB = true
		}
	}
	if !gotA || !gotB {
		x.Violate("not-converged", "payload", fmt.Sprintf("fresh payloads not delivered (A received: %v, B received: %v): %s", gotA, gotB, desc))
		return
	}
	x.NonTrivial()
	x.Probe("converged")
}
