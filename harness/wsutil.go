//go:build verif

package harness

import (
	"bufio"
	"fmt"
	"net"
	"net/http"
	"net/url"
	"sort"
	"strconv"
	"strings"
	"time"

	"github.com/gorilla/websocket"
)

// hijackRW lets gorilla's Upgrader run directly on a net.Conn.
type hijackRW struct {
	conn net.Conn
	brw  *bufio.ReadWriter
	hdr  http.Header
}

func (h *hijackRW) Header() http.Header         { return h.hdr }
func (h *hijackRW) Write(p []byte) (int, error) { return h.brw.Write(p) }
func (h *hijackRW) WriteHeader(code int) {
	fmt.Fprintf(h.brw, "HTTP/1.1 %d %s\r\n", code, http.StatusText(code))
	_ = h.hdr.Write(h.brw)
	fmt.Fprint(h.brw, "\r\n")
	_ = h.brw.Flush()
}
func (h *hijackRW) Hijack() (net.Conn, *bufio.ReadWriter, error) { return h.conn, h.brw, nil }

// wsServerSide performs the server half of the websocket opening handshake.
func wsServerSide(c net.Conn) (*websocket.Conn, error) {
	br := bufio.NewReaderSize(c, 1024)
	bw := bufio.NewWriterSize(c, 1024)
	req, err := http.ReadRequest(br)
	if err != nil {
		return nil, err
	}
	up := websocket.Upgrader{ReadBufferSize: 1024, WriteBufferSize: 1024, Subprotocols: []string{"ship"}, CheckOrigin: func(*http.Request) bool { return true }}
	return up.Upgrade(&hijackRW{conn: c, brw: bufio.NewReadWriter(br, bw), hdr: http.Header{}}, req, nil)
}

// wsClientSide performs the client half.
func wsClientSide(c net.Conn) (*websocket.Conn, error) {
	d := websocket.Dialer{
		ReadBufferSize: 1024, WriteBufferSize: 1024,
		NetDial:      func(string, string) (net.Conn, error) { return c, nil },
		Subprotocols: []string{"ship"},
	}
	u := url.URL{Scheme: "ws", Host: "peer:4711", Path: "/ship/"}
	conn, resp, err := d.Dial(u.String(), nil)
	if resp != nil && resp.Body != nil {
		resp.Body.Close()
	}
	return conn, err
}

func idMsg(id int) []byte {
	return []byte("\x02{\"id\":" + strconv.Itoa(id) + "}")
}

func msgID(b []byte) int {
	s := string(b)
	i := strings.Index(s, "\"id\":")
	if i < 0 {
		return -1
	}
	s = s[i+5:]
	j := 0
	for j < len(s) && s[j] >= '0' && s[j] <= '9' {
		j++
	}
	n, err := strconv.Atoi(s[:j])
	if err != nil {
		return -1
	}
	return n
}

func errStr(err error) string {
	if err == nil {
		return ""
	}
	return err.Error()
}

const sec = time.Second

func timeNowPlus(d time.Duration) time.Time { return time.Now().Add(d) }

func sortStrings(s []string) { sort.Strings(s) }
