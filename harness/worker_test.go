//go:build verif

//go:debug randseednop=0

package harness

import (
	"encoding/json"
	"fmt"
	"hash/fnv"
	"os"
	"os/signal"
	"testing"
	"time"
)

// Job is what verifctl hands to a worker process (file named by VERIF_JOB).
type Job struct {
	Mode       string   `json:"mode"` // search | replay | shrink
	Prop       string   `json:"prop"`
	Tier       string   `json:"tier"`
	SeedBase   uint64   `json:"seed_base"`
	From       int      `json:"from"`   // first run index (inclusive)
	Stride     int      `json:"stride"` // this worker handles From, From+Stride, ...
	MaxRuns    int      `json:"max_runs"`
	WallS      float64  `json:"wall_s"`
	SelfCheck  int      `json:"selfcheck_every"` // every n-th run is executed twice
	Known      []string `json:"known"`           // signatures of known findings
	Spec       *RunSpec `json:"spec,omitempty"`  // replay / shrink
	WantSig    string   `json:"want_sig,omitempty"`
	ShrinkS    float64  `json:"shrink_s,omitempty"`
	Out        string   `json:"out"`
	PerVariant int      `json:"per_variant,omitempty"` // seeds per enumerated variant
}

// WorkerSummary is the last line a search worker writes.
type WorkerSummary struct {
	Kind         string         `json:"kind"` // "summary"
	Runs         int            `json:"runs"`
	Outcomes     map[string]int `json:"outcomes"`
	EndReasons   map[string]int `json:"end_reasons"`
	NonTrivial   int            `json:"nontrivial"`
	Sigs         []uint64       `json:"sigs"` // hashes of behaviour signatures of non-trivial runs
	Faults       map[string]int `json:"faults"`
	Probes       map[string]int `json:"probes"`
	Choices      int            `json:"choices"`
	Steps        int64          `json:"steps"`
	SimMs        int64          `json:"sim_ms"`
	Preempt      int64          `json:"preemptions"`
	SelfChecks   int            `json:"selfchecks"`
	SelfCheckBad int            `json:"selfcheck_bad"`
	Known        map[string]int `json:"known"`
	Samples      []any          `json:"samples"`
	WallS        float64        `json:"wall_s"`
	Variants     int            `json:"variants"`
	HarnessErrs  []string       `json:"harness_errs,omitempty"`
	// Unfinished: runs that ended by the step budget or the horizon before the
	// scenario stopped itself (the final oracle did not run)
	Unfinished      []string `json:"unfinished,omitempty"`
	AbandonedPanics []string `json:"abandoned_panics,omitempty"`
}

func seedFor(base uint64, prop string, idx int) uint64 {
	h := fnv.New64a()
	fmt.Fprintf(h, "%d/%s/%d", base, prop, idx)
	v := h.Sum64()
	if v == 0 {
		v = 1
	}
	return v
}

func TestWorker(t *testing.T) {
	path := os.Getenv("VERIF_JOB")
	if path == "" {
		t.Skip("VERIF_JOB not set")
	}
	// make sure the os/signal watcher goroutine is started outside any bubble
	sc := make(chan os.Signal, 1)
	signal.Notify(sc, os.Interrupt)
	signal.Stop(sc)

	raw, err := os.ReadFile(path)
	if err != nil {
		t.Fatal(err)
	}
	var job Job
	if err := json.Unmarshal(raw, &job); err != nil {
		t.Fatal(err)
	}
	out, err := os.Create(job.Out)
	if err != nil {
		t.Fatal(err)
	}
	defer out.Close()
	enc := json.NewEncoder(out)
	switch job.Mode {
	case "search":
		workerSearch(t, &job, enc)
	case "hashes":
		for i := 0; i < job.MaxRuns; i++ {
			idx := job.From + i*job.Stride
			spec := RunSpec{Prop: job.Prop, Tier: job.Tier, Seed: seedFor(job.SeedBase, job.Prop, idx), Feat: FeatAll}
			if en := enumerators[job.Prop]; en != nil {
				vs := en(t, job.Tier)
				spec.Variant = vs[idx%len(vs)]
			}
			spec.Stalls = (spec.Seed>>11)%3 == 0
			res := Execute(t, spec)
			_ = enc.Encode(map[string]any{"kind": "hash", "idx": idx, "hash": res.Hash, "steps": res.Steps, "outcome": res.Outcome, "err": res.HarnessErr})
		}
	case "flaky":
		spec := *job.Spec
		spec.KeepTrace = true
		first := Execute(t, spec)
		spec.Replay = first.Tape
		base := Execute(t, spec)
		n := 0
		for i := 0; i < job.MaxRuns; i++ {
			r := Execute(t, spec)
			if r.Hash != base.Hash {
				n++
				if n <= 2 {
					_ = enc.Encode(map[string]any{"kind": "flaky", "i": i, "diff": firstDiffCtx(base.Trace, r.Trace, 25)})
				}
			}
		}
		_ = enc.Encode(map[string]any{"kind": "flaky-summary", "divergent": n, "of": job.MaxRuns})
	case "selfcheck":
		// one spec: the search run against the replay of its own tape, first difference
		spec := *job.Spec
		spec.KeepTrace = true
		spec.Replay = nil
		first := Execute(t, spec)
		spec.Replay = first.Tape
		if spec.Replay == nil {
			spec.Replay = []int{}
		}
		second := Execute(t, spec)
		_ = enc.Encode(map[string]any{"kind": "selfcheck", "equal": first.Hash == second.Hash, "steps": []int{first.Steps, second.Steps}, "diff": firstDiffCtx(first.Trace, second.Trace, 30)})
	case "replay":
		spec := *job.Spec
		spec.KeepTrace = true
		res := Execute(t, spec)
		_ = enc.Encode(map[string]any{"kind": "result", "result": res})
	case "shrink":
		tape, res, tries := Shrink(t, *job.Spec, job.WantSig, time.Duration(job.ShrinkS*float64(time.Second)))
		_ = enc.Encode(map[string]any{"kind": "shrunk", "tape": tape, "result": res, "tries": tries})
	default:
		t.Fatalf("unknown mode %q", job.Mode)
	}
}

func workerSearch(t *testing.T, job *Job, enc *json.Encoder) {
	start := time.Now()
	sum := WorkerSummary{Kind: "summary", Outcomes: map[string]int{}, EndReasons: map[string]int{}, Faults: map[string]int{}, Probes: map[string]int{}, Known: map[string]int{}}
	known := map[string]bool{}
	for _, k := range job.Known {
		known[k] = true
	}
	sc := scenarios[job.Prop]
	if sc == nil {
		t.Fatalf("unknown property %s", job.Prop)
	}
	var variants []string
	if en := enumerators[job.Prop]; en != nil {
		variants = en(t, job.Tier)
		sum.Variants = len(variants)
	}
	sigs := map[uint64]bool{}
	reported := map[string]bool{}
	nviol := 0
	for i := 0; ; i++ {
		if job.MaxRuns > 0 && i >= job.MaxRuns {
			break
		}
		idx := job.From + i*job.Stride
		if len(variants) > 0 && job.MaxRuns == 0 && idx >= len(variants)*seedsPerVariant(job) {
			break
		}
		if time.Since(start).Seconds() > job.WallS {
			// enumerated spaces must be completed; sampled ones stop at the budget
			if len(variants) == 0 || time.Since(start).Seconds() > job.WallS*4 {
				break
			}
		}
		spec := RunSpec{Prop: job.Prop, Tier: job.Tier, Feat: FeatAll}
		if len(variants) > 0 {
			spec.Variant = variants[idx%len(variants)]
			spec.Seed = seedFor(job.SeedBase, job.Prop, idx/len(variants))
		} else {
			spec.Seed = seedFor(job.SeedBase, job.Prop, idx)
		}
		// swarm: a third of the runs also deschedule goroutines at random points
		spec.Stalls = (spec.Seed>>11)%3 == 0
		res := Execute(t, spec)
		sum.Runs++
		sum.Outcomes[res.Outcome]++
		sum.EndReasons[res.EndReason]++
		if res.TeardownLeak {
			sum.Probes["teardown_goroutine_leak"]++
		}
		if (res.EndReason == "budget" || res.EndReason == "horizon") && res.Outcome == "ok" && len(sum.Unfinished) < 5 {
			sum.Unfinished = append(sum.Unfinished, fmt.Sprintf("seed=%d variant=%q ended by %s after %d steps, %d simulated ms", spec.Seed, spec.Variant, res.EndReason, res.Steps, res.SimTimeMs))
		}
		sum.Steps += int64(res.Steps)
		sum.SimMs += res.SimTimeMs
		sum.Preempt += int64(res.Preempt)
		sum.Choices += len(res.Tape)
		for k, v := range res.Faults {
			sum.Faults[k] += v
		}
		for k, v := range res.Probes {
			sum.Probes[k] += v
		}
		if res.NonTrivial {
			sum.NonTrivial++
			h := fnv.New64a()
			h.Write([]byte(res.Sig))
			sigs[h.Sum64()] = true
		}
		if res.Sample != nil && len(sum.Samples) < 3 && (res.NonTrivial || len(sum.Samples) == 0) {
			sum.Samples = append(sum.Samples, res.Sample)
		}
		switch res.Outcome {
		case "abandoned":
			if len(sum.HarnessErrs) < 5 {
				sum.HarnessErrs = append(sum.HarnessErrs, fmt.Sprintf("seed=%d variant=%s: %s", spec.Seed, spec.Variant, res.HarnessErr))
			}
		case "abandoned-panic":
			if len(sum.AbandonedPanics) < 3 && len(res.Panics) > 0 {
				sum.AbandonedPanics = append(sum.AbandonedPanics, res.Panics[0])
			}
		case "violation":
			// a run may violate several clauses: it counts as known only if all of them are
			var v *Violation
			for i := range res.Violations {
				if !known[res.Violations[i].Signature] {
					v = &res.Violations[i]
					break
				}
			}
			if v == nil {
				for _, kv := range res.Violations {
					sum.Known[kv.Signature]++
				}
				kv := res.Violations[0]
				if !reported["known:"+kv.Signature] {
					reported["known:"+kv.Signature] = true
					_ = enc.Encode(map[string]any{"kind": "known", "result": res})
				}
			} else if !reported[v.Signature] && nviol < 12 {
				reported[v.Signature] = true
				nviol++
				// put the unknown violation first: that is the one to minimise
				res.Violations[0], *v = *v, res.Violations[0]
				_ = enc.Encode(map[string]any{"kind": "violation", "result": res})
			}
		}
		if job.SelfCheck > 0 && i%job.SelfCheck == 0 && res.Outcome != "abandoned" {
			spec2 := spec
			spec2.Replay = res.Tape
			if spec2.Replay == nil {
				spec2.Replay = []int{}
			}
			res2 := Execute(t, spec2)
			sum.SelfChecks++
			if res2.Hash != res.Hash || res2.Steps != res.Steps {
				sum.SelfCheckBad++
				if sum.SelfCheckBad <= 2 {
					a := spec
					a.Replay = spec2.Replay
					a.KeepTrace = true
					r1 := Execute(t, a)
					r2 := Execute(t, a)
					d := firstDiff(r1.Trace, r2.Trace)
					if r1.Hash == r2.Hash {
						b := spec
						b.KeepTrace = true
						r0 := Execute(t, b)
						d = "search run vs its replay: " + firstDiff(r0.Trace, r1.Trace)
					}
					_ = enc.Encode(map[string]any{"kind": "nondeterminism", "spec": spec, "diff": d, "hash1": res.Hash, "hash2": res2.Hash})
				}
			}
		}
	}
	for k := range sigs {
		sum.Sigs = append(sum.Sigs, k)
	}
	sum.WallS = time.Since(start).Seconds()
	_ = enc.Encode(sum)
}

func seedsPerVariant(job *Job) int {
	if job.PerVariant > 0 {
		return job.PerVariant
	}
	if job.Tier == "thorough" {
		return 1500
	}
	return 40
}

func firstDiffCtx(a, b []string, ctx int) []string {
	for i := 0; i < len(a) && i < len(b); i++ {
		if a[i] != b[i] {
			lo := i - ctx
			if lo < 0 {
				lo = 0
			}
			out := append([]string{}, a[lo:i]...)
			hi := i + 6
			if hi > len(a) {
				hi = len(a)
			}
			for _, l := range a[i:hi] {
				out = append(out, "A> "+l)
			}
			hi = i + 6
			if hi > len(b) {
				hi = len(b)
			}
			for _, l := range b[i:hi] {
				out = append(out, "B> "+l)
			}
			return out
		}
	}
	return []string{"no diff in common prefix"}
}

func firstDiff(a, b []string) string {
	for i := 0; i < len(a) && i < len(b); i++ {
		if a[i] != b[i] {
			lo := i - 3
			if lo < 0 {
				lo = 0
			}
			return fmt.Sprintf("line %d:\n A: %v\n B: %v", i, a[lo:i+1], b[lo:i+1])
		}
	}
	if len(a) != len(b) {
		return fmt.Sprintf("lengths differ: %d vs %d (the replay of a search run diverged from the search run itself)", len(a), len(b))
	}
	return "traces of two replays are equal; the search run and its replay differ"
}

// enumerators list the variants of properties with an enumerated dimension.
var enumerators = map[string]func(t *testing.T, tier string) []string{}
