//go:build verif

package harness

import (
	"github.com/enbility/ship-go/model"

	"fmt"
	"time"

	"verif/simnet"
	"verif/simrt"
)

func init() {
	register(&Scenario{Prop: "C10", Horizon: time.Hour, Steps: 120000, Setup: setupC10})
}

type hubOp struct {
	Node   string `json:"node"`
	Op     string `json:"op"`
	Target string `json:"target,omitempty"`
	Gap    int    `json:"gap_ms"`
}

var c10Ops = []string{"register", "register", "unregister", "cancel", "disconnect", "autoaccept-on", "autoaccept-off", "mdns-hide", "mdns-show"}

func setupC10(x *Ctx) {
	r := newHubRig(x)
	names := []string{"A", "B", "C"}
	nNodes := 2 + x.Choose("nodes", 2)
	names = names[:nNodes]
	for _, n := range names {
		r.addNode(n)
	}
	lat := []time.Duration{0, time.Millisecond, 30 * time.Millisecond, 500 * time.Millisecond}[x.Choose("latency", 4)]
	x.Net.Latency = func(*simnet.Conn) time.Duration { return lat }
	r.eth.Delay = func() time.Duration {
		return time.Duration(x.S.ChooseBiased("mdns-delay", 4, 0.5)) * 300 * time.Millisecond
	}
	// per node: a sequence of user operations; shutdown (if drawn) is the last one
	plans := map[string][]hubOp{}
	for _, n := range names {
		k := 1 + x.Choose("ops", 10)
		for i := 0; i < k; i++ {
			op := c10Ops[x.Choose("op", len(c10Ops))]
			target := names[x.Choose("target", len(names))]
			if target == n {
				target = names[(indexOf(names, n)+1)%len(names)]
			}
			gap := []int{0, 0, 1, 100, 600, 1500, 4000, 12000, 40000}[x.Choose("gap", 9)]
			plans[n] = append(plans[n], hubOp{n, op, target, gap})
		}
		if x.Chance("shutdown", 0.35) {
			plans[n] = append(plans[n], hubOp{n, "shutdown", "", []int{0, 500, 5000}[x.Choose("gap", 3)]})
		}
	}
	if x.Feat(FeatPairingTies) && x.Chance("pairing-tie", 0.3) {
		// A dials B and waits for B's user; B's approval (hello "ready") reaches A at the
		// very instant A's user withdraws the pairing again
		g := []int{600, 1500, 4000}[x.Choose("tie-gap", 3)]
		withdraw := []string{"unregister", "cancel", "unregister"}[x.Choose("tie-withdraw", 3)]
		plans["A"] = append([]hubOp{{"A", "register", "B", 0}, {"A", withdraw, "B", g + int(lat/time.Millisecond)}}, plans["A"]...)
		plans["B"] = append([]hubOp{{"B", "register", "A", g}}, plans["B"]...)
		x.Probe("pairing-tie")
	}
	x.SigAdd(fmt.Sprintf("n=%d lat=%v", nNodes, lat))
	for _, n := range names {
		for _, op := range plans[n] {
			x.SigAdd(n + ":" + op.Op + ">" + op.Target)
		}
	}
	x.SetSample(map[string]any{"nodes": nNodes, "latency": lat.String(), "plans": plans})

	done := make(chan struct{}, len(names))
	for _, name := range names {
		n := r.node(name)
		x.Go(name+":user", func() {
			defer func() { done <- struct{}{} }()
			n.create()
			for _, m := range names {
				simrt.Recv("created", r.node(m).ready)
			}
			n.hub.Start()
			x.Ev("op-ret", name, "start", 0)
			for i, op := range plans[name] {
				if op.Gap > 0 {
					simrt.Sleep(time.Duration(op.Gap) * time.Millisecond)
				}
				var tski string
				if op.Target != "" {
					tski = r.node(op.Target).ski
				}
				x.Ev("op-inv", name, op.Op+">"+op.Target, i)
				switch op.Op {
				case "register":
					n.hub.RegisterRemoteSKI(r.spell(tski))
				case "unregister":
					before := n.hub.VerifConnections()[tski]
					n.hub.UnregisterRemoteSKI(r.spell(tski))
					if n.hub.ServiceForSKI(tski).Trusted() {
						x.Violate("trusted-after-unregister", "", fmt.Sprintf("hub %s still trusts %s right after UnregisterRemoteSKI returned", name, op.Target))
						return
					}
					if before != nil {
						id := fmt.Sprintf("conn%d", r.connID(before))
						x.Go(name+":watch", func() {
							simrt.Sleep(2 * time.Second)
							for _, e := range x.Events() {
								if e.Kind == "hub-closed" && e.A == name && e.B == id {
									return
								}
							}
							x.Violate("connection-not-closed-after-unregister", "", fmt.Sprintf("hub %s: the connection to %s registered when UnregisterRemoteSKI was called has not been reported closed 2 simulated s later", name, op.Target))
						})
					}
				case "cancel":
					// what does the hub itself say right before? (clause 3)
					st := int(n.hub.PairingDetailForSki(tski).State())
					if _, has := n.hub.VerifConnections()[tski]; !has {
						st += 100
					}
					x.Ev("cancel-sees", name, op.Target, st)
					n.hub.CancelPairingWithSKI(r.spell(tski))
					// the pairing may have completed between that look and the hub's own (the
					// caller was descheduled): a completed, still trusted connection at return
					// means the cancel found nothing pending and left it alone
					if x.Feat(FeatSpawnLast) {
						if c := n.hub.VerifConnections()[tski]; c != nil {
							if cst, _ := c.ShipHandshakeState(); cst == model.SmeStateComplete && n.hub.ServiceForSKI(tski).Trusted() {
								x.Ev("cancel-sees", name, op.Target, 7)
							}
						}
					}
				case "disconnect":
					n.hub.DisconnectSKI(r.spell(tski), "user")
				case "autoaccept-on":
					n.hub.SetAutoAccept(true)
				case "autoaccept-off":
					n.hub.SetAutoAccept(false)
				case "mdns-hide":
					t := r.node(op.Target)
					for _, q := range r.eth.others(t.prov) {
						r.eth.send(q, t.prov.item(true))
					}
				case "mdns-show":
					r.eth.resync()
				case "shutdown":
					n.hub.Shutdown()
				}
				x.Ev("op-ret", name, op.Op+">"+op.Target, i)
			}
		})
	}
	x.Go("X:end", func() {
		for range names {
			simrt.Recv("done", done)
		}
		// pending delayed dials (back-off up to 20 s) and handshakes get their time
		simrt.Sleep(150 * time.Second)
		x.S.Stop("done")
	})
	x.OnFinal(func() { checkUserIntent(x, r, names) })
}

func indexOf(s []string, v string) int {
	for i, e := range s {
		if e == v {
			return i
		}
	}
	return -1
}

// checkUserIntent is the C10 history oracle.
func checkUserIntent(x *Ctx, r *hubRig, names []string) {
	evs := x.Events()
	type pair struct{ x, y string }
	registeredInv := map[pair]bool{} // Register(Y) invoked on X and not undone by a *returned* unregister
	unregRet := map[pair]int{}       // seq of the returned Unregister(Y) (0 = not in effect)
	unregAt := map[pair]time.Duration{}
	shutdownRet := map[string]int{}
	shutdownAt := map[string]time.Duration{}
	autoAccept := map[string]bool{} // may be on (set on invoke, cleared on return of off)
	everAuto := map[string]bool{}   // auto-accept pairs inbound SKIs without the user: dial checks do not apply
	cancelActive := map[pair]bool{} // a pending request was cancelled and no register followed yet
	cancelSawPending := map[pair]bool{}
	cancelSawCompleted := map[pair]bool{}
	cancelSawNoConn := map[pair]bool{}
	cancelNoConnActive := map[pair]bool{}
	skiNode := func(ski string) string { return r.skiName(ski) }
	autoOffAt := map[string]time.Duration{}
	attemptOK := map[string]bool{}
	attemptWhy := map[string]string{}
	dials, nontrivial := 0, false
	for _, e := range evs {
		switch e.Kind {
		case "op-inv":
			var op, target string
			fmt.Sscanf(replaceGT(e.B), "%s %s", &op, &target)
			p := pair{e.A, target}
			switch op {
			case "register":
				registeredInv[p] = true
				unregRet[p] = 0
				cancelActive[p] = false
				cancelNoConnActive[p] = false
			case "autoaccept-on":
				autoAccept[e.A] = true
				everAuto[e.A] = true
			}
		case "op-ret":
			var op, target string
			fmt.Sscanf(replaceGT(e.B), "%s %s", &op, &target)
			p := pair{e.A, target}
			switch op {
			case "unregister":
				// a register invoked after this unregister was invoked re-establishes intent
				unregRet[p] = e.Seq
				unregAt[p] = e.T
				registeredInv[p] = false
				nontrivial = true
			case "cancel":
				if cancelSawCompleted[p] {
					// nothing was pending: a completed pairing is not cancelled (it is
					// ended with UnregisterRemoteSKI), the SKI stays registered
					cancelSawCompleted[p] = false
					break
				}
				registeredInv[p] = false
				if cancelSawPending[p] {
					cancelActive[p] = true
					cancelSawPending[p] = false
				}
				if cancelSawNoConn[p] {
					cancelNoConnActive[p] = true
					cancelSawNoConn[p] = false
				}
			case "shutdown":
				shutdownRet[e.A] = e.Seq
				shutdownAt[e.A] = e.T
				nontrivial = true
			case "autoaccept-off":
				autoAccept[e.A] = false
				autoOffAt[e.A] = e.T
			}
		case "cancel-sees":
			cancelSawPending[pair{e.A, e.B}] = e.N == 3   // received pairing request: a pending handshake
			cancelSawCompleted[pair{e.A, e.B}] = e.N == 7 // a completed connection is registered
			cancelSawNoConn[pair{e.A, e.B}] = e.N >= 100  // no connection registered at all when cancel was called
		case "attempt":
			// the hub decides to connect: this is where user intent must cover it;
			// the dials of this attempt (host name, then each address) may come later
			p := pair{e.A, e.B}
			ok := registeredInv[p] || everAuto[e.A] || (unregRet[p] != 0 && e.T == unregAt[p])
			why := ""
			switch {
			case shutdownRet[e.A] != 0 && e.T > shutdownAt[e.A]:
				ok, why = false, "shutdown"
			case !ok && unregRet[p] != 0:
				why = "unregister"
			case !ok:
				why = "never"
			}
			attemptOK[e.Task] = ok
			attemptWhy[e.Task] = why
		case "dial":
			dials++
			ok, seen := attemptOK[e.Task]
			if !seen || ok {
				continue
			}
			switch attemptWhy[e.Task] {
			case "shutdown":
				x.Violate("dial-after-shutdown", "", fmt.Sprintf("hub %s started a connection attempt to %s and dialled at %v, after Shutdown() had returned at %v", e.A, e.B, e.T, shutdownAt[e.A]))
			case "unregister":
				p := pair{e.A, e.B}
				x.Violate("dial-after-unregister", "", fmt.Sprintf("hub %s started a connection attempt to %s and dialled at %v although UnregisterRemoteSKI had returned at %v and no Register followed", e.A, e.B, e.T, unregAt[p]))
			default:
				x.Violate("dial-without-register", "", fmt.Sprintf("hub %s started a connection attempt to %s, which the user never registered (or whose pairing the user cancelled)", e.A, e.B))
			}
			return
		case "app-setup":
			p := pair{e.A, skiNode(e.B)}
			// the trust decision of a handshake is taken in its hello phase, up to two
			// minutes (prolongation) before the setup: auto-accept counts if it was on then
			if autoAccept[e.A] || (everAuto[e.A] && e.T-autoOffAt[e.A] < 120*time.Second) {
				// auto-accept pairs the SKI on the user's behalf (the hub marks it trusted):
				// from here on it counts as registered until the user unregisters / cancels
				registeredInv[p] = true
				unregRet[p] = 0
				cancelActive[p] = false
				cancelNoConnActive[p] = false
				continue
			}
			if cancelNoConnActive[p] {
				x.Violate("setup-after-cancel", "no-connection-at-cancel", fmt.Sprintf("hub %s: CancelPairingWithSKI(%s) returned while no connection to it existed (trust withdrawn), no register followed, auto-accept off - yet a later handshake completed", e.A, p.y))
				return
			}
			if unregRet[p] != 0 && !registeredInv[p] && !autoAccept[e.A] {
				// an inbound handshake from an unregistered SKI completed (auto accept off)
				x.Violate("setup-after-unregister", "", fmt.Sprintf("hub %s set up remote device %s after it had been unregistered (auto-accept off)", e.A, p.y))
				return
			}
			if cancelActive[p] && !autoAccept[e.A] {
				x.Violate("completed-after-cancel", "", fmt.Sprintf("hub %s: handshake with %s completed after CancelPairingWithSKI on the pending request", e.A, p.y))
				return
			}
		}
	}
	if dials > 0 && nontrivial {
		x.NonTrivial()
	}
	if dials > 0 {
		x.Probe("dialled")
	}
}

func replaceGT(s string) string {
	out := []byte(s)
	for i := range out {
		if out[i] == '>' {
			out[i] = ' '
		}
	}
	return string(out)
}
