//go:build verif

package harness

import (
	"errors"
	"fmt"
	"strconv"
	"strings"
	"sync"
	"time"

	"github.com/enbility/ship-go/model"
	"github.com/enbility/ship-go/ship"

	"verif/simrt"
)

// ship1 is the SHIP1 engine: one real ShipConnection (either role) above a
// stub transport, driven by a scripted peer (the "read pump" task), a user
// task and the connection's own timer goroutines.
type ship1Opts struct {
	devRate       float64 // probability of a deviant frame per peer step
	dataRate      float64 // probability of an (early/late) data frame per peer step
	clockRate     float64 // probability of a pure clock advance per peer step
	maxEvents     int
	userPlans     []string // drawn from: none approve cancel close-safe close-unsafe revoke
	helloModes    []string // peer hello behaviour: ready pending aborted
	trustModes    []string // paired auto none
	storedIDs     []string
	presented     []string // what the peer presents as its SHIP ID (frame text via fAccess or raw)
	connErrRate   float64
	peerClose     float64
	writeFailAt   int
	failOnce      bool
	noWaiting     float64 // probability that waiting for trust is not allowed
	roles         []string
	lateFrames    int  // frames still delivered after the transport was closed
	noPeerHelloEv bool // the peer never sends unsolicited hello events (abort, prolongation)
	// inject, if set, is asked before every peer event: when it returns ok the
	// frame is delivered at once (a frame that must meet a particular state)
	inject func(state int) (frame, class string, ok bool)
	// silent, if set, is asked before every peer event: once it returns true the peer
	// sends nothing more and keeps the connection open (the quiet period starts)
	silent       func(state int) bool
	asyncConnErr float64  // probability of a transport error reported from a second goroutine (the ws write pump)
	amOrders     []string // order variants of the access-methods exchange (C09)
	noAmDeviants bool
	timelyTail   bool // after the event budget the peer keeps answering at once (no input-free quiet period)
	// warmup: probability that the process has had an earlier connection - a complete
	// handshake of another ShipConnection with a cooperative peer, closed again - before the
	// unit under test is created ("state that is only wrong the second time")
	warmup float64
	// slowK / slowD: the cooperative peer's slowK-th message (1-based) comes slowD late
	slowK int
	slowD time.Duration
}

type ship1 struct {
	x    *Ctx
	o    ship1Opts
	role string // role of the unit under test
	conn *ship.ShipConnection
	prov *stubProvider
	tw   *stubWriter

	mu         sync.Mutex
	queue      []string
	sentReady  bool
	gotReady   bool
	sentAnn    bool
	sentAmReq  bool
	helloMode  string
	trustMode  string
	presented  string
	storedID   string
	userPlan   string
	userAt     int
	peerEvents int
	userTrig   chan struct{}
	userDone   chan struct{}
	nextData   int
	amOrder    string
	asyncErrAt int
	asyncTrig  chan struct{}
	delivered  []string
	devClasses map[string]int
	coopN      int
	// epochs counts, per task, the entries into the unit under test (a delivery, a user
	// operation, a timer expiry): what one task does within one epoch is one reaction of
	// the state machine
	epochMu sync.Mutex
	epochs  map[string]int64
}

// bumpEpoch starts a new reaction of the state machine in the calling task.
func (s *ship1) bumpEpoch() {
	s.epochMu.Lock()
	if s.epochs == nil {
		s.epochs = map[string]int64{}
	}
	s.epochs[simrt.CurrentLabel()]++
	s.epochMu.Unlock()
}

// epochOf returns the calling task and the number of its current reaction.
func (s *ship1) epochOf() (string, int64) {
	t := simrt.CurrentLabel()
	s.epochMu.Lock()
	defer s.epochMu.Unlock()
	return t, s.epochs[t]
}

func (s *ship1) enqueue(f ...string) {
	s.queue = append(s.queue, f...)
}

// onTx is the cooperative peer's reaction to a frame written by the UUT.
func (s *ship1) onTx(kind string, b []byte) {
	s.mu.Lock()
	defer s.mu.Unlock()
	peerClient := s.role == "server"
	switch kind {
	case "init":
		if !peerClient {
			s.enqueue(fInit)
		}
		switch s.helloMode {
		case "ready":
			s.enqueue(fHelloReady)
			s.sentReady = true
		case "pending":
			s.enqueue(fHelloPending)
		case "aborted":
			s.enqueue(fHelloAborted)
		}
	case "hello:ready":
		s.gotReady = true
		s.maybeAnnounce()
	case "hello:prolong":
		if s.sentReady {
			s.enqueue(fHelloReady)
		} else {
			s.enqueue(fHelloPending)
		}
	case "prot:announce":
		s.enqueue(fProtSelect)
	case "prot:select":
		if peerClient {
			s.enqueue(fProtSelect)
		}
		if s.amOrder == "early-reply" {
			s.enqueue(s.presented)
		}
		s.enqueue(fPinNone)
	case "pin":
		if !s.sentAmReq {
			s.sentAmReq = true
			switch s.amOrder {
			case "reply-first":
				s.enqueue(s.presented, fAccessReq)
			case "no-request":
			default:
				s.enqueue(fAccessReq)
			}
		}
	case "amreq":
		switch s.amOrder {
		case "reply-first":
		case "reply-twice":
			s.enqueue(s.presented, s.presented)
		case "combined":
			s.enqueue(fAccessReq + s.presented[1:])
		default:
			s.enqueue(s.presented)
		}
	case "close:announce":
		s.enqueue(fCloseConfirm)
	}
}

// coopDeliver hands over the cooperative peer's next message - late, if this is the one
// the scenario wants late.
func (s *ship1) coopDeliver(f string) {
	s.coopN++
	if s.coopN == s.o.slowK && s.o.slowD > 0 {
		s.x.Ev("peer-slow", classify([]byte(f)), s.o.slowD.String(), int(s.state()))
		simrt.Sleep(s.o.slowD)
	}
	s.deliver(f, "coop:"+classify([]byte(f)))
}

func (s *ship1) maybeAnnounce() {
	if s.role == "server" && s.sentReady && s.gotReady && !s.sentAnn {
		s.sentAnn = true
		s.enqueue(fProtAnnounce)
	}
}

func (s *ship1) state() model.ShipMessageExchangeState {
	st, _ := s.conn.ShipHandshakeState()
	return st
}

// deliver hands one frame to the unit under test, as the read pump would.
func (s *ship1) deliver(f string, class string) {
	st := s.state()
	// like the ws read pump: nothing is handed over once the transport is known
	// to be closed (checked right before the hand-over, no schedule point between)
	if s.o.lateFrames == 0 && s.tw.isClosed() {
		return
	}
	s.bumpEpoch()
	s.x.Ev("rx", class, "", int(st))
	s.x.SigAdd(fmt.Sprintf("rx:%d:%s", st, class))
	s.conn.HandleIncomingWebsocketMessage([]byte(f))
	s.x.Ev("rx-ret", class, "", 0)
}

var sleepChoices = []time.Duration{time.Second, 10 * time.Second, 31 * time.Second, 60 * time.Second, 66 * time.Second, time.Millisecond, 9 * time.Second, 120 * time.Second}

func newShip1(x *Ctx, o ship1Opts) *ship1 {
	s := &ship1{x: x, o: o, userTrig: make(chan struct{}), userDone: make(chan struct{}), devClasses: map[string]int{}}
	s.role = Pick(x, "role", o.roles)
	s.trustMode = Pick(x, "trust", o.trustModes)
	s.helloMode = PickB(x, "peer-hello", 0.6, o.helloModes)
	s.storedID = Pick(x, "stored-id", o.storedIDs)
	s.presented = Pick(x, "presented-id", o.presented)
	s.userPlan = Pick(x, "user-plan", o.userPlans)
	s.userAt = x.Choose("user-at", o.maxEvents+1)
	noWaiting := x.Chance("no-waiting", o.noWaiting)
	s.amOrder = "normal"
	if len(o.amOrders) > 0 {
		s.amOrder = PickB(x, "am-order", 0.4, o.amOrders)
	}
	s.asyncTrig = make(chan struct{})
	if x.Chance("async-connerr", o.asyncConnErr) {
		s.asyncErrAt = 1 + x.Choose("async-connerr-at", o.maxEvents)
		x.Go("U:wpump", func() {
			simrt.Recv("asyncTrig", s.asyncTrig)
			x.Ev("connerr-injected", "async", "", int(s.state()))
			s.tw.mu.Lock()
			s.tw.closed = true
			s.tw.closeErr = errors.New("transport lost")
			s.tw.mu.Unlock()
			s.conn.ReportConnectionError(errors.New("transport lost (write pump)"))
			x.Ev("connerr-ret", "async", "", 0)
		})
	}
	s.nextData = 1
	s.prov = &stubProvider{x: x, name: "U", paired: s.trustMode == "paired", autoAccept: s.trustMode == "auto", allowWaiting: !noWaiting}
	s.tw = &stubWriter{x: x, name: "U", failAt: o.writeFailAt, failOnce: o.failOnce, onTx: s.onTx}
	x.SigAdd("role="+s.role, "trust="+s.trustMode, "hello="+s.helloMode, "user="+s.userPlan)

	warm := x.Feat(FeatMoreInputs) && x.Chance("warm-up-connection", o.warmup)
	x.Go("U:pump", func() {
		if warm {
			shipWarmup(x)
		}
		role := ship.ShipRoleClient
		if s.role == "server" {
			role = ship.ShipRoleServer
		}
		s.conn = ship.NewConnectionHandler(s.prov, s.tw, role, "LOCALID", "peerski", s.storedID)
		x.Ev("run", s.role, "", 0)
		s.conn.Run()
		if s.role == "server" {
			s.mu.Lock()
			s.enqueue(fInit)
			s.mu.Unlock()
		}
		if s.userAt == 0 {
			close(s.userTrig)
		}
		s.peerLoop()
		// quiet period: every timer that is still armed gets its chance
		x.Ev("quiet-start", "", "", int(s.state()))
		if s.o.timelyTail {
			for i := 0; i < 360; i++ {
				for !s.tw.isClosed() {
					s.mu.Lock()
					var f string
					if len(s.queue) > 0 {
						f = s.queue[0]
						s.queue = s.queue[1:]
					}
					s.mu.Unlock()
					if f == "" {
						break
					}
					s.coopDeliver(f)
				}
				simrt.Sleep(time.Second)
			}
		} else {
			simrt.Sleep(6 * time.Minute)
		}
		x.Ev("quiet-end", "", "", int(s.state()))
		if s.userPlan != "none" {
			select {
			case <-s.userTrig:
			default:
				close(s.userTrig)
			}
			simrt.Recv("userDone", s.userDone)
		}
		x.S.Stop("done")
	})

	if s.userPlan != "none" {
		x.Go("U:user", func() {
			defer close(s.userDone)
			simrt.Recv("userTrig", s.userTrig)
			st := s.state()
			switch s.userPlan {
			case "approve":
				s.prov.set(func() { s.prov.paired = true })
				s.bumpEpoch()
				x.Ev("user-approve", "", "", int(st))
				s.conn.ApprovePendingHandshake()
				x.Ev("user-approve-ret", "", "", 0)
			case "cancel":
				s.bumpEpoch()
				x.Ev("user-cancel", "", "", int(st))
				s.conn.AbortPendingHandshake()
				x.Ev("user-cancel-ret", "", "", 0)
			case "close-safe":
				x.Ev("user-close", "safe", "", int(st))
				s.conn.CloseConnection(true, 0, "user close")
				x.Ev("user-close-ret", "", "", 0)
			case "close-unsafe":
				x.Ev("user-close", "unsafe", "", int(st))
				s.conn.CloseConnection(false, 4500, "user close")
				x.Ev("user-close-ret", "", "", 0)
			case "revoke":
				x.Ev("user-revoke-waiting", "", "", int(st))
				s.prov.set(func() { s.prov.allowWaiting = false })
			}
		})
	}
	return s
}

func (s *ship1) peerLoop() {
	x := s.x
	late := 0
	errReported := false
	for ev := 1; ev <= s.o.maxEvents; ev++ {
		if ev == s.userAt {
			select {
			case <-s.userTrig:
			default:
				close(s.userTrig)
			}
		}
		if ev == s.asyncErrAt {
			close(s.asyncTrig)
		}
		if s.o.silent != nil && s.o.silent(int(s.state())) {
			return
		}
		if s.o.inject != nil && !s.tw.isClosed() {
			if f, class, ok := s.o.inject(int(s.state())); ok {
				s.mu.Lock()
				s.devClasses[class]++
				s.mu.Unlock()
				s.deliver(f, "dev:"+class)
				continue
			}
		}
		if s.tw.isClosed() || errReported {
			// the transport is gone: the pump may still hand over a few frames it
			// had already read (late arrivals), then it stops
			if late >= s.o.lateFrames {
				return
			}
			late++
		}
		r := x.S.ChooseBiased("peer-act", 1000, 0.5)
		p := float64(r) / 1000
		if s.o.noPeerHelloEv && p >= s.o.devRate+s.o.dataRate+s.o.clockRate+s.o.connErrRate+s.o.peerClose {
			r = 0
		}
		switch {
		case r == 0 || p >= s.o.devRate+s.o.dataRate+s.o.clockRate+s.o.connErrRate+s.o.peerClose+0.08:
			// cooperative step
			s.mu.Lock()
			var f string
			if len(s.queue) > 0 {
				f = s.queue[0]
				s.queue = s.queue[1:]
			}
			s.mu.Unlock()
			if f != "" {
				s.coopDeliver(f)
			} else {
				d := sleepChoices[x.Choose("sleep", len(sleepChoices))]
				x.Ev("sleep", d.String(), "", 0)
				if s.o.timelyTail {
					// a timely peer: wake up as soon as there is something to answer
					for left := d; left > 0; left -= 100 * time.Millisecond {
						s.mu.Lock()
						n := len(s.queue)
						s.mu.Unlock()
						if n > 0 {
							break
						}
						simrt.Sleep(100 * time.Millisecond)
					}
				} else {
					simrt.Sleep(d)
				}
			}
		case p < s.o.devRate:
			f, class := deviantFrame(x, s)
			s.mu.Lock()
			s.devClasses[class]++
			s.mu.Unlock()
			s.deliver(f, "dev:"+class)
		case p < s.o.devRate+s.o.dataRate:
			id := s.nextData
			s.nextData++
			x.Ev("data-injected", "", "", id)
			s.deliver(fData(id), "data")
		case p < s.o.devRate+s.o.dataRate+s.o.clockRate:
			d := sleepChoices[x.Choose("sleep", len(sleepChoices))]
			x.Ev("sleep", d.String(), "", 0)
			simrt.Sleep(d)
		case p < s.o.devRate+s.o.dataRate+s.o.clockRate+s.o.connErrRate:
			if !errReported {
				errReported = true
				x.Ev("connerr-injected", "", "", int(s.state()))
				s.tw.mu.Lock()
				s.tw.closed = true
				s.tw.closeErr = errors.New("transport lost")
				s.tw.mu.Unlock()
				s.conn.ReportConnectionError(errors.New("transport lost"))
				x.Ev("connerr-ret", "", "", 0)
			}
		case p < s.o.devRate+s.o.dataRate+s.o.clockRate+s.o.connErrRate+s.o.peerClose:
			s.deliver(fCloseAnnounce, "peer-close-announce")
		default:
			// peer-side hello events
			switch x.Choose("peer-hello-ev", 3) {
			case 0:
				s.mu.Lock()
				if !s.sentReady {
					s.sentReady = true
					s.enqueue(fHelloReady)
					s.maybeAnnounce()
				}
				s.mu.Unlock()
			case 1:
				s.deliver(fHelloProlong, "peer-prolong")
			case 2:
				s.deliver(fHelloAborted, "peer-abort")
			}
		}
	}
}

// ---------------------------------------------------------------- deviant frames

var waitingVals = []int{-1, 0, 999, 1000, 29999, 30000, 60000, 4294967295}

func deviantFrame(x *Ctx, s *ship1) (string, string) {
	if s != nil && s.o.noAmDeviants {
		// the scenario controls the one SHIP ID the peer presents: no other access-methods frame
		for i := 0; i < 20; i++ {
			f, c := deviantFrame1(x, s)
			if !strings.Contains(f, "accessMethods") {
				return f, c
			}
		}
		return fHelloReady, "valid:hello:ready"
	}
	return deviantFrame1(x, s)
}

func deviantFrame1(x *Ctx, s *ship1) (string, string) {
	k := x.Choose("dev-kind", 12)
	switch k {
	case 0: // valid frame of some phase (possibly another one)
		fs := []string{fInit, fHelloReady, fHelloPending, fHelloProlong, fHelloAborted, fProtAnnounce, fProtSelect, fPinNone, fAccessReq, fAccess("PEERID"), fCloseConfirm, fCloseAnnounce}
		f := fs[x.Choose("dev-valid", len(fs))]
		return f, "valid:" + classify([]byte(f))
	case 1: // hello with all member combinations
		phase := []string{"ready", "pending", "aborted", "junk", ""}[x.Choose("dev-phase", 5)]
		w := waitingVals[x.Choose("dev-waiting", len(waitingVals))]
		p := x.Choose("dev-prolong", 3)
		return fHello(phase, w, p), "hello-combo:" + phase
	case 2: // protocol handshake variants
		vs := []string{
			"\x01{\"messageProtocolHandshake\":[{\"handshakeType\":\"select\"},{\"version\":[{\"major\":1},{\"minor\":0}]},{\"formats\":[{\"format\":[ ]}]}]}",
			"\x01{\"messageProtocolHandshake\":[{\"handshakeType\":\"select\"},{\"version\":[{\"major\":1},{\"minor\":0}]},{\"formats\":[{\"format\":[]}]}]}",
			"\x01{\"messageProtocolHandshake\":[{\"handshakeType\":\"select\"},{\"version\":[{\"major\":2},{\"minor\":0}]},{\"formats\":[{\"format\":[\"JSON-UTF8\"]}]}]}",
			"\x01{\"messageProtocolHandshake\":[{\"handshakeType\":\"select\"},{\"version\":[{\"major\":1},{\"minor\":0}]},{\"formats\":[{\"format\":[\"JSON-UTF16\",\"JSON-UTF8\"]}]}]}",
			"\x01{\"messageProtocolHandshake\":[{\"handshakeType\":\"select\"},{\"version\":[{\"major\":1},{\"minor\":0}]}]}",
			"\x01{\"messageProtocolHandshake\":[{\"handshakeType\":\"select\"}]}",
			"\x01{\"messageProtocolHandshake\":[{\"handshakeType\":\"announceMax\"},{\"version\":[{\"major\":999},{\"minor\":0}]},{\"formats\":[{\"format\":[\"JSON-UTF8\"]}]}]}",
			"\x01{\"messageProtocolHandshake\":[]}",
			"\x01{\"messageProtocolHandshake\":null}",
			"\x01{\"messageProtocolHandshakeError\":[{\"error\":2}]}",
			"\x01{\"messageProtocolHandshake\":[{\"handshakeType\":\"select\"},{\"version\":[{\"major\":1},{\"minor\":0}]},{\"formats\":[{\"format\":null}]}]}",
			"\x01{\"messageProtocolHandshake\":[{\"handshakeType\":\"select\"},{\"version\":[{\"major\":1},{\"minor\":0}]},{\"formats\":[ ]}]}",
		}
		i := x.Choose("dev-prot", len(vs))
		return vs[i], "prot-variant:" + strconv.Itoa(i)
	case 3: // pin variants
		vs := []string{"required", "optional", "pinOk", "none", "junk", ""}
		v := vs[x.Choose("dev-pin", len(vs))]
		return "\x01{\"connectionPinState\":[{\"pinState\":" + strconv.Quote(v) + "}]}", "pin:" + v
	case 4: // access methods variants
		vs := []string{
			fAccess("OTHER"), fAccess(""), "\x01{\"accessMethods\":[]}", "\x01{\"accessMethods\":[{\"id\":null}]}",
			"\x01{\"accessMethods\":[{\"id\":7}]}", "\x01{\"accessMethods\":[{\"id\":[{\"a\":1}]}]}", "\x01{\"accessMethods\":{",
			fAccessReq + fAccess("PEERID"), "\x01{\"accessMethodsRequest\":[]}{\"accessMethods\":[{\"id\":\"X\"}]}",
			fAccess("PEERID"), "\x01{\"accessMethods\":[{\"id\":\"PEERID\"},{\"dns\":[{\"uri\":\"x\"}]}]}",
		}
		i := x.Choose("dev-am", len(vs))
		return vs[i], "am-variant:" + strconv.Itoa(i)
	case 5: // ill-formed JSON / truncations of a valid frame
		fs := []string{fHelloReady, fProtSelect, fPinNone, fAccess("PEERID"), fCloseAnnounce, fData(77)}
		f := fs[x.Choose("dev-trunc-of", len(fs))]
		n := 1 + x.Choose("dev-trunc-at", len(f)-1)
		return f[:n], "truncated"
	case 6: // wrong header byte on a valid body
		fs := []string{fHelloReady, fProtSelect, fPinNone, fAccess("PEERID"), fInit, fCloseAnnounce}
		f := fs[x.Choose("dev-hdr-of", len(fs))]
		h := []byte{0, 1, 2, 3, 4, 255}[x.Choose("dev-hdr", 6)]
		return string([]byte{h}) + f[1:], "wrong-header"
	case 7: // zero padding / trailing garbage
		fs := []string{fHelloReady, fProtSelect, fPinNone, fAccessReq}
		f := fs[x.Choose("dev-pad-of", len(fs))]
		pads := []string{"\x00", "\x00\x00\x00", " ", "}", "]]"}
		return f + pads[x.Choose("dev-pad", len(pads))], "padded"
	case 8: // raw bytes
		raws := []string{"\x00", "\x01", "\x00\x01", "\x01{}", "\x01[]", "\x01null", "\x01\"x\"", "\x011", "\x02{}", "\x03{}", "\x01{\"a\":", "\xff\xfe\xfd", "\x01{\"connectionHello\":7}", "\x01{\"connectionHello\":[7]}", "\x00\x00\x00", "\x00\xff"}
		i := x.Choose("dev-raw", len(raws))
		return raws[i], "raw:" + strconv.Itoa(i)
	case 9: // deep nesting / big
		depth := []int{50, 200, 5000}[x.Choose("dev-depth", 3)]
		return "\x01{\"connectionHello\":" + strings.Repeat("[", depth) + strings.Repeat("]", depth) + "}", "deep"
	case 10: // connection close variants
		vs := []string{fCloseAnnounce, fCloseConfirm, "\x03{\"connectionClose\":[{\"phase\":\"junk\"}]}", "\x01{\"connectionClose\":[{\"phase\":\"announce\"}]}", "\x03{\"connectionClose\":[{\"phase\":\"announce\"},{\"maxTime\":4294967295},{\"reason\":\"x\"}]}"}
		i := x.Choose("dev-close", len(vs))
		return vs[i], "close-variant:" + strconv.Itoa(i)
	default: // data-ish
		vs := []string{
			"\x02{\"data\":[{\"header\":[{\"protocolId\":\"ee1.0\"}]}]}",
			"\x02{\"data\":[{\"header\":[{\"protocolId\":\"ee1.0\"}]},{\"payload\":null}]}",
			"\x01{\"datagram\":1}", "\x02datagram", "\x02{\"data\":{\"payload\":{\"datagram\":",
			"\x02{\"data\":[{\"header\":[{\"protocolId\":\"xx\"}]},{\"payload\":{\"datagram\":[]}}]}",
		}
		i := x.Choose("dev-data", len(vs))
		return vs[i], "data-variant:" + strconv.Itoa(i)
	}
}

// ---------------------------------------------------------------- helpers for oracles

func isProgressState(st int) bool {
	// states that mean "trust was given": hello ok and everything after it
	return st == 13 || (st >= 18 && st <= 38)
}

func isTerminalState(st int) bool {
	return st == 14 || st == 15 || st == 16 || st == 17 || st == 39
}

// shipWarmup: an earlier connection of this process - a complete handshake (either role) with
// a cooperative peer that presents the SHIP ID "EARLIER", then closed. It leaves no events.
func shipWarmup(x *Ctx) {
	w := &ship1{x: x, helloMode: "ready", amOrder: "normal", presented: fAccess("EARLIER"), devClasses: map[string]int{}}
	w.role = Pick(x, "warm-up-role", []string{"client", "server"})
	w.prov = &stubProvider{x: x, name: "W", quiet: true, paired: true, allowWaiting: true}
	w.tw = &stubWriter{x: x, name: "W", quiet: true, onTx: w.onTx}
	role := ship.ShipRoleClient
	if w.role == "server" {
		role = ship.ShipRoleServer
	}
	w.conn = ship.NewConnectionHandler(w.prov, w.tw, role, "LOCALID", "ffffffffffffffffffffffffffffffffffffffff", "")
	w.conn.Run()
	if w.role == "server" {
		w.mu.Lock()
		w.enqueue(fInit)
		w.mu.Unlock()
	}
	for i := 0; i < 40; i++ {
		w.mu.Lock()
		var f string
		if len(w.queue) > 0 {
			f = w.queue[0]
			w.queue = w.queue[1:]
		}
		w.mu.Unlock()
		if f == "" {
			break
		}
		w.conn.HandleIncomingWebsocketMessage([]byte(f))
	}
	if st, _ := w.conn.ShipHandshakeState(); st == model.SmeStateComplete {
		x.Probe("earlier-connection-completed")
	}
	w.conn.CloseConnection(false, 0, "")
}
