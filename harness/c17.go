//go:build verif

package harness

import (
	"fmt"
	apiPkg "github.com/enbility/ship-go/api"
	"net"
	"sort"
	"strings"
	"time"

	"verif/simrt"
)

func init() {
	register(&Scenario{Prop: "C17", Horizon: time.Hour, Steps: 200000, Setup: setupC17})
}

type mdnsSvc struct {
	ski, id, brand, model, typ, serial, cat string
}

var c17Addrs = []string{"10.0.1.1", "10.0.1.2", "2001:db8::1", "fe80::1", "10.0.1.1", "fe80::2", "192.168.7.7"}

func setupC17(x *Ctx) {
	r := newHubRig(x)
	a := r.addNode("A")
	nSvc := 1 + x.Choose("services", 4)
	var svcs []mdnsSvc
	for i := 0; i < nSvc; i++ {
		svcs = append(svcs, mdnsSvc{ski: fmt.Sprintf("%040x", 0xabc000+i), id: fmt.Sprintf("ID%d", i), brand: fmt.Sprintf("brand%d", i), model: "m", typ: "t", serial: fmt.Sprintf("s%d", i), cat: "1,2"})
	}
	nEv := 1 + x.Choose("events", 20)
	burst := x.Chance("back-to-back", 0.6)
	var history []string
	x.SigAdd(fmt.Sprintf("svcs=%d events=%d burst=%v", nSvc, nEv, burst))
	x.OnFinal(func() { x.SigAdd(strings.Join(history, ";")) })

	txtOf := func(s mdnsSvc) map[string]string {
		return map[string]string{"txtvers": "1", "id": s.id, "path": "/ship/", "ski": s.ski, "register": "false", "brand": s.brand, "model": s.model, "type": s.typ, "serial": s.serial, "cat": s.cat}
	}
	// reference model: visible services and their address sets
	model := map[string]map[string]bool{}

	// services the provider resolves as soon as it has been started, i.e. while
	// MdnsManager.Start / Hub.Start are still running on the application's goroutine
	nEarly := 0
	if x.Feat(FeatEarlyResolve) {
		nEarly = x.Biased("early-services", 3, 0.6)
	}
	if nEarly > len(svcs) {
		nEarly = len(svcs)
	}
	earlyDone := make(chan struct{})
	x.Go("A:early", func() {
		defer close(earlyDone)
		simrt.Recv("created", a.ready)
		simrt.Recv("provider-started", a.prov.startedCh)
		for i := 0; i < nEarly; i++ {
			s := svcs[i]
			ip := c17Addrs[i%2]
			model[s.ski] = map[string]bool{ip: true}
			history = append(history, fmt.Sprintf("early-add %s [%s]", s.ski[len(s.ski)-4:], ip))
			x.Ev("mdns-in", "early-add", s.ski, 1)
			x.Probe("resolved-during-start")
			a.prov.cb(txtOf(s), "name-"+s.id, "host-"+s.id+".local", []net.IP{net.ParseIP(ip)}, 4711, false)
		}
	})

	// the hub asks the manager for its current entries (what RegisterRemoteSKI and a closed
	// connection of a paired service do) while resolver events are being processed
	nReq := 0
	if x.Feat(FeatMdnsRequests) {
		nReq = x.Biased("mdns-requests", 6, 0.5)
	}
	reqGaps := make([]time.Duration, nReq)
	for i := range reqGaps {
		reqGaps[i] = time.Duration(x.Choose("req-gap", 5)) * 50 * time.Millisecond
	}
	x.Go("A:requests", func() {
		simrt.Recv("created", a.ready)
		simrt.Recv("provider-started", a.prov.startedCh)
		simrt.Sleep(time.Second)
		for _, g := range reqGaps {
			simrt.Sleep(g)
			x.Probe("entries-requested-during-events")
			a.mdns.RequestMdnsEntries()
		}
	})

	x.Go("A:resolver", func() {
		a.create()
		a.hub.Start()
		simrt.Recv("early-done", earlyDone)
		simrt.Sleep(time.Second)
		for i := 0; i < nEv; i++ {
			s := svcs[x.Choose("svc", len(svcs))]
			txt := txtOf(s)
			kind := []string{"add", "add", "add", "remove", "remove-unknown", "invalid", "add-own-ski"}[x.Choose("ev-kind", 7)]
			var addrs []net.IP
			for k, n := 0, x.Choose("n-addrs", 4); k < n; k++ {
				addrs = append(addrs, net.ParseIP(c17Addrs[x.Choose("addr", len(c17Addrs))]))
			}
			remove := false
			switch kind {
			case "remove":
				remove = true
				addrs = nil
			case "remove-unknown":
				remove = true
				txt["ski"] = "ffff000000000000000000000000000000000000"
				addrs = nil
			case "invalid":
				switch x.Choose("invalid-kind", 5) {
				case 0:
					delete(txt, []string{"txtvers", "id", "path", "ski", "register"}[x.Choose("missing", 5)])
				case 1:
					txt["txtvers"] = "2"
				case 2:
					txt["register"] = "maybe"
				case 3:
					txt["txtvers"] = ""
				case 4:
					txt["register"] = ""
				}
			case "add-own-ski":
				txt["ski"] = a.ski
			}
			// model update (independent of the implementation)
			valid := true
			for _, k := range []string{"txtvers", "id", "path", "ski", "register"} {
				if _, ok := txt[k]; !ok {
					valid = false
				}
			}
			if txt["txtvers"] != "1" || (txt["register"] != "true" && txt["register"] != "false") || txt["ski"] == a.ski {
				valid = false
			}
			if valid {
				if remove {
					delete(model, txt["ski"])
				} else {
					set := model[txt["ski"]]
					if set == nil {
						set = map[string]bool{}
						model[txt["ski"]] = set
					}
					for _, ip := range addrs {
						if ip.To4() == nil && ip.IsLinkLocalUnicast() {
							continue
						}
						set[ip.String()] = true
					}
				}
			}
			history = append(history, fmt.Sprintf("%s %s %v", kind, txt["ski"][len(txt["ski"])-min(4, len(txt["ski"])):], addrs))
			x.Ev("mdns-in", kind, txt["ski"], len(addrs))
			port := 4711
			if remove {
				port = -1
			}
			a.prov.cb(txt, "name-"+s.id, "host-"+s.id+".local", addrs, port, remove)
			// the manager's view right after the resolver callback returned
			got := a.mdns.VerifEntries()
			if d := compareEntries(model, got); d != "" {
				x.Violate("entries-differ-from-history", strings.SplitN(d, ":", 2)[0], fmt.Sprintf("after events %v: %s", history, d))
				return
			}
			if !burst {
				simrt.Sleep(time.Duration(x.Choose("ev-gap", 4)) * 100 * time.Millisecond)
			}
		}
		// mDNS activity stops
		simrt.Sleep(30 * time.Second)
		var want []string
		for _, s := range svcs {
			if _, ok := model[s.ski]; ok {
				want = append(want, fmt.Sprintf("%s/%s/%s/%s/%s/%s/[1 2]", s.ski, s.id, s.brand, s.model, s.typ, s.serial))
			}
		}
		sort.Strings(want)
		a.app.mu.Lock()
		last := a.app.lastVisible
		a.app.mu.Unlock()
		if len(history) > 0 && strings.Join(last, ";") != strings.Join(want, ";") {
			// was any report due at all? (no valid change => no report)
			changed := false
			for _, e := range x.Events() {
				if e.Kind == "app-visible" && e.T > time.Second {
					changed = true
				}
			}
			if changed || len(want) > 0 {
				x.Violate("last-visible-list-stale", "", fmt.Sprintf("after events %v the final set of services is %v but the last VisibleRemoteServicesUpdated delivered %v", history, short(want), short(last)))
				return
			}
		}
		x.NonTrivial()
		x.SetSample(map[string]any{"services": nSvc, "events": history, "final_set": short(want)})
		x.S.Stop("done")
	})
}

func short(l []string) []string {
	var out []string
	for _, s := range l {
		p := strings.SplitN(s, "/", 3)
		if len(p) >= 2 {
			out = append(out, p[1])
		} else {
			out = append(out, s)
		}
	}
	return out
}

func compareEntries(model map[string]map[string]bool, got map[string]*apiMdnsEntry) string {
	for ski := range model {
		if _, ok := got[ski]; !ok {
			return "missing-service: service ..." + ski[len(ski)-4:] + " was announced and not removed but is not in the manager's set"
		}
	}
	for ski, e := range got {
		set, ok := model[ski]
		if !ok {
			return "unexpected-service: the manager's set contains ..." + ski[len(ski)-min(4, len(ski)):] + " which is not announced (or invalid, or removed)"
		}
		seen := map[string]bool{}
		for _, ip := range e.Addresses {
			s := ip.String()
			if seen[s] {
				return "duplicate-address: " + s + " listed twice for ..." + ski[len(ski)-4:]
			}
			seen[s] = true
			if ip.To4() == nil && ip.IsLinkLocalUnicast() {
				return "link-local-address: " + s + " kept for ..." + ski[len(ski)-4:]
			}
			if !set[s] {
				return "unknown-address: " + s + " was never reported for ..." + ski[len(ski)-4:]
			}
		}
		for s := range set {
			if !seen[s] {
				return "missing-address: " + s + " was reported for ..." + ski[len(ski)-4:] + " but is not in its address list"
			}
		}
	}
	return ""
}

type apiMdnsEntry = apiPkg.MdnsEntry
