//go:build verif

package harness

import (
	"fmt"
	"time"
)

func init() {
	register(&Scenario{Prop: "C09", Horizon: 4 * time.Hour, Steps: 80000, Setup: setupC09})
	register(&Scenario{Prop: "C11", Horizon: 4 * time.Hour, Steps: 80000, Setup: setupC11})
}

type presentedID struct {
	frame string
	id    string
	ok    bool // a well-formed string id
}

var c09Presented = []presentedID{
	{fAccess("PEERID"), "PEERID", true},
	{fAccess("OTHER"), "OTHER", true},
	{fAccess(""), "", true},
	{fAccess("PEERID "), "PEERID ", true},
	{fAccess("PEERI"), "PEERI", true},
	{fAccess("id\"with}quotes{"), "id\"with}quotes{", true},
	{"\x01{\"accessMethods\":[]}", "", false},
	{"\x01{\"accessMethods\":[{\"id\":null}]}", "", false},
	{"\x01{\"accessMethods\":[{\"id\":7}]}", "", false},
	{"\x01{\"accessMethods\":[{\"id\":[{\"a\":1}]}]}", "", false},
	{"\x01{\"accessMethods\":[{\"dns\":[{\"uri\":\"x\"}]}]}", "", false},
}

func setupC09(x *Ctx) {
	if x.Chance("c09-hub", 0.04) {
		c09Hub(x)
		return
	}
	pi := x.Biased("presented", len(c09Presented), 0.3)
	pres := c09Presented[pi]
	o := ship1Opts{
		devRate: 0.04, dataRate: 0.04, clockRate: 0.03, connErrRate: 0.005,
		maxEvents:    30,
		userPlans:    []string{"none", "approve"},
		helloModes:   []string{"ready"},
		trustModes:   []string{"paired", "auto", "none"},
		storedIDs:    []string{"", "PEERID", "OTHER", "PEERID ", "id\"with}quotes{", "a-rather-long-ship-id-0123456789-0123456789-0123456789-0123456789"},
		presented:    []string{pres.frame},
		warmup:       0.5,
		roles:        []string{"server", "client"},
		amOrders:     []string{"normal", "reply-first", "reply-twice", "early-reply", "combined", "no-request"},
		noAmDeviants: true,
	}
	s := newShip1(x, o)
	x.SigAdd(fmt.Sprintf("pres=%d", pi), "order="+s.amOrder, "stored="+s.storedID)
	x.OnFinal(func() {
		stored := s.storedID
		completed, setupSeq, errState := false, 0, false
		var reports []Event
		amInAccess := false
		for _, e := range x.Events() {
			switch e.Kind {
			case "state":
				if e.N == 38 {
					completed = true
				}
				if e.N == 39 {
					errState = true
				}
			case "setup":
				if setupSeq == 0 {
					setupSeq = e.Seq
				}
			case "shipid":
				reports = append(reports, e)
			case "rx":
				if e.N == 36 && (e.A == "coop:am") {
					amInAccess = true
				}
			}
		}
		match := pres.ok && (stored == "" || pres.id == stored)
		if completed && !match {
			x.Violate("completed-with-wrong-ship-id", "", fmt.Sprintf("%s role, order %s: stored SHIP ID %q, peer presented %q (well-formed=%v), yet the handshake completed", s.role, s.amOrder, stored, pres.id, pres.ok))
			return
		}
		if setupSeq != 0 && !match {
			x.Violate("setup-with-wrong-ship-id", "", fmt.Sprintf("stored %q, presented %q (well-formed=%v), yet SetupRemoteDevice was called", stored, pres.id, pres.ok))
			return
		}
		if amInAccess && !match && !errState {
			x.Violate("mismatch-not-an-error", "", fmt.Sprintf("stored %q, presented %q in the access-methods phase, but the connection did not end in the error state", stored, pres.id))
			return
		}
		if stored != "" && len(reports) > 0 {
			x.Violate("known-id-reported", "", fmt.Sprintf("stored SHIP ID %q but ReportServiceShipID(%q) was called", stored, reports[0].B))
			return
		}
		if stored == "" {
			if len(reports) > 1 {
				x.Violate("ship-id-reported-twice", "", fmt.Sprintf("ReportServiceShipID called %d times", len(reports)))
				return
			}
			if completed && len(reports) != 1 {
				x.Violate("ship-id-not-reported", "", "handshake completed with a previously unknown SHIP ID that was never reported")
				return
			}
			if len(reports) == 1 {
				if reports[0].B != pres.id || !pres.ok {
					x.Violate("wrong-ship-id-reported", "", fmt.Sprintf("reported %q, presented %q (well-formed=%v)", reports[0].B, pres.id, pres.ok))
					return
				}
				if setupSeq != 0 && reports[0].Seq > setupSeq {
					x.Violate("ship-id-reported-after-setup", "", "ReportServiceShipID came after SetupRemoteDevice")
					return
				}
			}
		}
		if amInAccess {
			x.NonTrivial()
			x.Probe("access-methods-reply-evaluated")
		}
		if completed {
			x.Probe("completed")
		}
		x.SigAdd(fmt.Sprintf("completed=%v err=%v reports=%d", completed, errState, len(reports)))
		x.SetSample(map[string]any{"role": s.role, "stored": stored, "presented": pres.id, "well_formed": pres.ok, "order": s.amOrder, "completed": completed, "reports": len(reports)})
	})
}

// ---- C11 at the SHIP level: one close report per connection object

func setupC11(x *Ctx) {
	if x.Spec.Variant == "hub" || (x.Spec.Variant == "" && hubC11 != nil && x.Chance("c11-hub", 0.5)) {
		hubC11(x)
		return
	}
	x.SigAdd("engine=ship1")
	o := c01Opts()
	o.devRate = 0.06
	o.dataRate = 0.05
	o.clockRate = 0.06
	o.connErrRate = 0.04
	o.peerClose = 0.08
	o.asyncConnErr = 0.35
	o.trustModes = []string{"paired", "paired", "auto", "none"}
	o.storedIDs = []string{"", "PEERID", "OTHER"}
	o.userPlans = []string{"close-safe", "close-unsafe", "none", "cancel", "close-safe", "approve"}
	o.lateFrames = 1
	s := newShip1(x, o)
	x.OnFinal(func() {
		checkCloseOnce(x, "U")
		x.SetSample(map[string]any{"engine": "ship1", "role": s.role, "user": s.userPlan, "states": stateSeq(x, "U")})
	})
}

var hubC11 func(x *Ctx)

// checkCloseOnce: exactly one HandleConnectionClosed per connection object.
func checkCloseOnce(x *Ctx, name string) {
	n, tclose := 0, 0
	causes := map[string]bool{}
	setupAfterEnd := 0
	for _, e := range x.Events() {
		switch e.Kind {
		case "closed":
			if e.A == name {
				n++
			}
		case "setup":
			// the application is told 'set up' for a connection whose end it has
			// already been told about: its last notification contradicts reality
			if e.A == name && n > 0 && setupAfterEnd == 0 {
				setupAfterEnd = e.Seq
			}
		case "tclose":
			if e.A == name {
				tclose++
			}
		case "user-close":
			causes["local-"+e.A] = true
		case "connerr-injected":
			causes["transport-error"+e.A] = true
		case "rx":
			if e.A == "peer-close-announce" || e.A == "dev:close-variant:0" || e.A == "dev:close-variant:1" || e.A == "dev:valid:close:announce" || e.A == "dev:valid:close:confirm" || e.A == "coop:close:confirm" {
				causes["peer-close"] = true
			}
		case "user-cancel":
			causes["abort"] = true
		case "tx-failed":
			causes["write-failure"] = true
		}
	}
	for c := range causes {
		x.SigAdd("cause:" + c)
	}
	if n > 1 {
		x.Violate("connection-end-reported-twice", "", fmt.Sprintf("HandleConnectionClosed was called %d times for one connection (causes present: %v)", n, keys(causes)))
		return
	}
	if setupAfterEnd != 0 {
		x.Violate("setup-after-end-reported", "", fmt.Sprintf("SetupRemoteDevice was called (event %d) after HandleConnectionClosed had been reported for the same connection (causes present: %v)", setupAfterEnd, keys(causes)))
		return
	}
	if n == 0 && causes["transport-error"] || n == 0 && causes["transport-errorasync"] {
		x.Violate("connection-end-not-reported", "transport-error", fmt.Sprintf("a transport error was reported to the connection (the ws layer has closed itself by then) but HandleConnectionClosed was never called (causes present: %v)", keys(causes)))
		return
	}
	if tclose > 0 && n == 0 {
		x.Violate("connection-end-not-reported", "", fmt.Sprintf("the transport was closed but HandleConnectionClosed was never called (causes present: %v)", keys(causes)))
		return
	}
	if len(causes) >= 2 {
		x.NonTrivial()
		x.Probe("coinciding-close-causes")
	}
	if n == 1 {
		x.Probe("closed-once")
	}
}

func keys(m map[string]bool) []string {
	var out []string
	for k := range m {
		out = append(out, k)
	}
	sortStrings(out)
	return out
}
