//go:build verif

package ship

import "time"

// Entry points for the simulator (supplied through -overlay, never part of /repo).

// VerifArmTimer arms the handshake timer with a chosen duration.
func (c *ShipConnection) VerifArmTimer(d time.Duration) {
	c.setHandshakeTimer(timeoutTimerTypeWaitForReady, d)
}

// VerifStopTimer stops the handshake timer.
func (c *ShipConnection) VerifStopTimer() { c.stopHandshakeTimer() }

// VerifTimerRunning exposes the timer flag.
func (c *ShipConnection) VerifTimerRunning() bool { return c.getHandshakeTimerRunning() }

// VerifBuffered returns the number of SPINE messages held back.
func (c *ShipConnection) VerifBuffered() int {
	c.bufferMux.Lock()
	defer c.bufferMux.Unlock()
	return len(c.spineBuffer)
}
