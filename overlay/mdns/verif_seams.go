//go:build verif

package mdns

import (
	"net"

	"github.com/enbility/go-avahi"
	"github.com/enbility/ship-go/api"
)

// Seams used by the simulator (supplied through -overlay, never part of /repo).

// VerifZeroconfFactory, when set, replaces the zeroconf provider.
var VerifZeroconfFactory func(m *MdnsManager, ifaces []net.Interface) api.MdnsProviderInterface

func verifNewZeroconfProvider(m *MdnsManager, ifaces []net.Interface) api.MdnsProviderInterface {
	if VerifZeroconfFactory != nil {
		return VerifZeroconfFactory(m, ifaces)
	}
	return NewZeroconfProvider(ifaces)
}

// VerifAvahiServerFactory, when set, replaces the D-Bus backed Avahi server.
var VerifAvahiServerFactory func() avahi.ServerInterface

func verifAvahiServerNew() avahi.ServerInterface {
	if VerifAvahiServerFactory != nil {
		return VerifAvahiServerFactory()
	}
	return avahi.ServerNew()
}

// read-only accessors for oracles

func (m *MdnsManager) VerifSKI() string { return m.ski }

// VerifEntries returns a copy of the manager's current entry set.
func (m *MdnsManager) VerifEntries() map[string]*api.MdnsEntry { return m.copyMdnsEntries() }

func (m *MdnsManager) VerifProcessMdnsEntry(elements map[string]string, name, host string, addresses []net.IP, port int, remove bool) {
	m.processMdnsEntry(elements, name, host, addresses, port, remove)
}
