//go:build verif

package hub

import "github.com/enbility/ship-go/api"

// Read-only accessors for the simulator's oracles (supplied through -overlay).

// VerifConnections returns a copy of the connection registry.
func (h *Hub) VerifConnections() map[string]api.ShipConnectionInterface {
	h.muxCon.Lock()
	defer h.muxCon.Unlock()
	out := make(map[string]api.ShipConnectionInterface, len(h.connections))
	for k, v := range h.connections {
		out[k] = v
	}
	return out
}

// VerifAttemptRunning reports the connection-attempt flag for a SKI.
func (h *Hub) VerifAttemptRunning(ski string) bool { return h.isConnectionAttemptRunning(ski) }
