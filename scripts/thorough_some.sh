#!/bin/bash
# usage: scripts/thorough_some.sh <seed> <id>...   thorough tier of the given checks for one PRNG seed
export GOFLAGS=-mod=mod GOPROXY=off GOSUMDB=off GOTOOLCHAIN=local
cd "$(dirname "$0")/.."
mkdir -p bin && go1.26.8 build -o bin/ ./cmd/simgen ./cmd/verifctl || exit 2
s=$1; shift
rc=0
for id in "$@"; do
  t0=$(date +%s)
  VERIF_SEED=$s bin/verifctl check $id --tier thorough > out_$id.txt 2>&1
  e=$?
  echo "seed=$s $id exit=$e wall=$(( $(date +%s)-t0 ))s $(tail -1 out_$id.txt)" | tee -a thorough_$s.log
  grep -h "^violation\|^VIOLATION\|^KNOWN-FINDING" out_$id.txt | cut -c1-300 | sort | uniq -c | head -20 | tee -a thorough_$s.log
  [ $e -ne 0 ] && { rc=1; cp out_$id.txt fail_${s}_$id.txt; }
done
exit $rc
