#!/usr/bin/env python3
"""Run every packaged seeded change against the quick tier of the check of the
property it breaks, on scratch worktrees only (never /repo, never the evidence
directory of /verif). Writes sensitivity/seeded_sweep.json.
usage: seeded_sweep.py [id ...]"""
import json, os, subprocess, sys, glob, time, re
env = dict(os.environ, GOFLAGS="-mod=mod", GOPROXY="off", GOSUMDB="off", GOTOOLCHAIN="local")
ids = sys.argv[1:] or sorted(os.listdir("/verif/seeded"))
vd = "/tmp/verif_sweep"
subprocess.run(["git", "-C", "/verif", "worktree", "remove", "--force", vd], capture_output=True)
subprocess.run(["git", "-C", "/verif", "worktree", "add", "-q", "--detach", vd, "HEAD"], check=True)
subprocess.run("mkdir -p bin && go1.26.8 build -o bin/ ./cmd/simgen ./cmd/verifctl", shell=True, cwd=vd, env=env, check=True)
out = []
for sid in ids:
    meta = json.load(open(f"/verif/seeded/{sid}/meta.json"))
    prop = meta["breaks_property"]
    wt = f"/tmp/wt_sweep_{sid}"
    subprocess.run(["git", "-C", "/repo", "worktree", "remove", "--force", wt], capture_output=True)
    subprocess.run(["git", "-C", "/repo", "worktree", "add", "-q", "--detach", wt, "HEAD"], check=True)
    r = subprocess.run(["git", "-C", wt, "apply", f"/verif/seeded/{sid}/patch.diff"], capture_output=True, text=True)
    rec = {"seed": sid, "property": prop, "repo_head": subprocess.run(["git", "-C", "/repo", "rev-parse", "--short", "HEAD"], capture_output=True, text=True).stdout.strip()}
    if r.returncode != 0:
        r3 = subprocess.run(["git", "-C", wt, "apply", "--3way", f"/verif/seeded/{sid}/patch.diff"], capture_output=True, text=True)
        if r3.returncode != 0:
            rec["result"] = "patch no longer applies to HEAD (the lines were changed by a later fix)"
            rec["apply_error"] = r.stderr.strip()[:300]
            out.append(rec); print(json.dumps(rec)); 
            subprocess.run(["git", "-C", "/repo", "worktree", "remove", "--force", wt], capture_output=True)
            continue
    b = subprocess.run(["go", "build", "./..."], cwd=wt, env=env, capture_output=True, text=True)
    if b.returncode != 0:
        rec["result"] = "does not build on HEAD any more"; out.append(rec); print(json.dumps(rec))
        subprocess.run(["git", "-C", "/repo", "worktree", "remove", "--force", wt], capture_output=True)
        continue
    t0 = time.time()
    c = subprocess.run(["bin/verifctl", "check", prop, "--tier", "quick"], cwd=vd, env=dict(env, VERIF_REPO=wt), capture_output=True, text=True)
    lines = [l[:300] for l in c.stdout.splitlines() if l.startswith("violation")]
    rec.update({"exit": c.returncode, "caught": c.returncode == 1, "wall_s": round(time.time() - t0, 1), "first_violation": lines[:1]})
    rec["result"] = "caught" if c.returncode == 1 else ("MISSED" if c.returncode == 0 else "harness trouble")
    out.append(rec); print(json.dumps(rec))
    subprocess.run(["git", "-C", "/repo", "worktree", "remove", "--force", wt], capture_output=True)
    subprocess.run(["rm", "-rf", os.path.join(vd, "replays")])
os.makedirs("/verif/sensitivity", exist_ok=True)
json.dump(out, open("/verif/sensitivity/seeded_sweep.json", "w"), indent=1)
subprocess.run(["git", "-C", "/verif", "worktree", "remove", "--force", vd], capture_output=True)
print("caught", sum(1 for r in out if r.get("caught")), "of", len(out))
