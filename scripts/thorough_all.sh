#!/bin/bash
# Runs the thorough tier of every claimed check for the PRNG seeds given as arguments
# (default 101). Meant for `vp run -- scripts/thorough_all.sh 101 102`; writes
# thorough_<seed>.log next to MANIFEST.json. Exit 0 iff no check failed.
export GOFLAGS=-mod=mod GOPROXY=off GOSUMDB=off GOTOOLCHAIN=local
cd "$(dirname "$0")/.."
mkdir -p bin && go1.26.8 build -o bin/ ./cmd/simgen ./cmd/verifctl || exit 2
seeds=${@:-101}
rc=0
for s in $seeds; do
  for id in $(jq -r '.checks[].property_id' MANIFEST.json); do
    t0=$(date +%s)
    VERIF_SEED=$s bin/verifctl check $id --tier thorough > out_$id.txt 2>&1
    e=$?
    echo "seed=$s $id exit=$e wall=$(( $(date +%s)-t0 ))s $(tail -1 out_$id.txt)" | tee -a thorough_$s.log
    grep -h "^violation\|^VIOLATION\|^KNOWN-FINDING" out_$id.txt | sort | uniq -c | head -20 | tee -a thorough_$s.log
    [ $e -ne 0 ] && { rc=1; cp out_$id.txt fail_${s}_$id.txt; }
  done
done
exit $rc
