#!/bin/bash
# Determinism self-test over all claimed properties except C20 (parallel rounds
# are exempt): N seeds x 8 OS processes at GOMAXPROCS 1,1,4,4,16,16,2,8.
# usage: scripts/determinism_all.sh [runs-per-property, default 200] [VERIF_SEED]
export GOFLAGS=-mod=mod GOPROXY=off GOSUMDB=off GOTOOLCHAIN=local
cd "$(dirname "$0")/.."
mkdir -p bin && go1.26.8 build -o bin/ ./cmd/simgen ./cmd/verifctl || exit 2
n=${1:-200}; seed=${2:-1}
rc=0
for id in $(jq -r '.checks[].property_id' MANIFEST.json); do
  [ $id = C20 ] && continue
  VERIF_SEED=$seed VERIF_DET_RUNS=$n bin/verifctl determinism $id 2>&1 | tail -4 | tee -a determinism_$seed.log
  [ ${PIPESTATUS[0]} -ne 0 ] && rc=1
done
exit $rc
