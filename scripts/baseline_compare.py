#!/usr/bin/env python3
"""Run the pinned ship-go test suite (guard off: plain tree, default toolchain) and
compare the set of passing tests with /root/.vp/BASELINE.json stable_pass."""
import json, subprocess, sys, os
repo = sys.argv[1] if len(sys.argv) > 1 else "/repo"
base = json.load(open("/root/.vp/BASELINE.json"))
want = set(base["stable_pass"])
env = dict(os.environ, GOFLAGS="-mod=mod", GOPROXY="off", GOSUMDB="off")
p = subprocess.run(["go", "test", "-json", "-vet=off", "-count=1", "-timeout", "25m", "./..."], cwd=repo, env=env, capture_output=True, text=True)
passed = set()
for line in p.stdout.splitlines():
    try:
        d = json.loads(line)
    except Exception:
        continue
    if d.get("Action") == "pass" and d.get("Test"):
        passed.add(d["Package"] + "::" + d["Test"])
missing = sorted(want - passed)
extra = sorted(passed - want)
print(f"baseline stable_pass={len(want)} passed_now={len(passed)} missing={len(missing)} extra={len(extra)}")
for m in missing:
    print("MISSING", m)
for e in extra[:40]:
    print("EXTRA", e)
sys.exit(1 if missing else 0)
