#!/usr/bin/env python3
"""Confirm a seeded change and run checks against it, on scratch trees only.
usage: seed_eval.py <seed-dir e.g. /tmp/seed_C04> <id> <prop[,prop..]> [tier]
Writes <seed-dir>/eval.json ."""
import json, subprocess, sys, os, shutil, glob, re, time
seed, sid, props = sys.argv[1], sys.argv[2], sys.argv[3].split(",")
tier = sys.argv[4] if len(sys.argv) > 4 else "quick"
env = dict(os.environ, GOFLAGS="-mod=mod", GOPROXY="off", GOSUMDB="off")
wt = f"/tmp/wt_val_{sid}"
vd = f"/tmp/verif_eval_{sid}"
def sh(cmd, cwd=None, e=env, timeout=3600):
    r = subprocess.run(cmd, cwd=cwd, env=e, capture_output=True, text=True, shell=isinstance(cmd, str), timeout=timeout)
    return r.returncode, (r.stdout + r.stderr)
subprocess.run(["git", "-C", "/repo", "worktree", "remove", "--force", wt], capture_output=True)
subprocess.run(["git", "-C", "/repo", "worktree", "add", "-q", wt, "HEAD"], check=True)
res = {"id": sid, "props": props}
patch = os.path.join(seed, "patch.diff")
rc, out = sh(["git", "-C", wt, "apply", patch])
res["applies"] = rc == 0
if rc != 0:
    res["error"] = out[-500:]
    json.dump(res, open(os.path.join(seed, "eval.json"), "w"), indent=1); print(res); sys.exit(1)
pkgs = sorted({l.split()[-1].split("/")[1] for l in open(patch) if l.startswith("+++ b/")})
res["packages"] = pkgs
rc, out = sh(["go", "build", "./..."], cwd=wt)
res["builds"] = rc == 0
# existing tests of touched packages
tests = {}
for p in pkgs:
    rc, out = sh(["go", "test", "-vet=off", "-count=1", f"./{p}/"], cwd=wt)
    fails = re.findall(r"--- FAIL: (\S+)", out)
    allowed = {"TestMdnsSuite", "TestMdnsSuite/Test_AvahiOnly", "TestMdnsSuite/Test_LongStrings", "TestMdnsSuite/Test_Start_IFaces"}
    tests[p] = {"exit": rc, "failed": fails, "ok": rc == 0 or set(fails) <= allowed}
res["existing_tests"] = tests
# demo with / without
demos = glob.glob(os.path.join(seed, "*_test.go")) + glob.glob(os.path.join(seed, "*", "*_test.go"))
democmd = open(os.path.join(seed, "demo_cmd.txt")).read().strip() if os.path.exists(os.path.join(seed, "demo_cmd.txt")) else ""
res["demo_cmd"] = democmd
# find the target package of the demo from its package clause + the agent's worktree layout
agent_wt = f"/tmp/wt_{sid}"
placed = []
for d in demos:
    base = os.path.basename(d)
    sub = os.path.basename(os.path.dirname(d))
    if os.path.dirname(d) != seed and os.path.isdir(os.path.join(wt, sub)):
        pkg = sub
    else:
        hits = glob.glob(os.path.join(agent_wt, "*", base))
        pkg = os.path.basename(os.path.dirname(hits[0])) if hits else pkgs[0]
    shutil.copy(d, os.path.join(wt, pkg, base)); placed.append((pkg, base))
def run_demo():
    outs = []
    ok = True
    for pkg, base in placed:
        names = re.findall(r"func (Test\w+)\(", open(os.path.join(wt, pkg, base)).read())
        if not names:
            continue
        race = ["-race"] if "-race" in democmd else []
        rc, out = sh(["go", "test"] + race + ["-vet=off", "-count=1", "-run", "^(" + "|".join(names) + ")$", f"./{pkg}/"], cwd=wt)
        outs.append(out[-600:]); ok = ok and rc == 0
    return ok, outs
ok_with, o1 = run_demo()
sh(["git", "-C", wt, "apply", "-R", patch])
ok_without, o2 = run_demo()
sh(["git", "-C", wt, "apply", patch])
res["demo_fails_with_change"] = not ok_with
res["demo_passes_without_change"] = ok_without
res["demo_out_with"] = o1; res["demo_out_without"] = o2
for pkg, base in placed:
    os.remove(os.path.join(wt, pkg, base))
# checks
subprocess.run(["git", "-C", "/verif", "worktree", "remove", "--force", vd], capture_output=True)
subprocess.run(["git", "-C", "/verif", "worktree", "add", "-q", "--detach", vd, "HEAD"], check=True)
e2 = dict(env, GOTOOLCHAIN="local", VERIF_REPO=wt)
sh("mkdir -p bin && go1.26.8 build -o bin/ ./cmd/simgen ./cmd/verifctl", cwd=vd, e=e2)
checks = {}
for p in props:
    t0 = time.time()
    rc, out = sh(["bin/verifctl", "check", p, "--tier", tier], cwd=vd, e=e2, timeout=7200)
    lines = [l[:400] for l in out.splitlines() if l.startswith("violation") or l.startswith("VIOLATION") or l.startswith(p + " ")]
    checks[p] = {"exit": rc, "caught": rc == 1, "wall_s": round(time.time() - t0, 1), "lines": lines[:6]}
    if rc == 2:
        checks[p]["stderr"] = out[-800:]
    # keep the replay of the first violation
    for f in glob.glob(os.path.join(vd, "replays", p + "-*.json"))[:1]:
        shutil.copy(f, os.path.join(seed, "replay_" + p + ".json"))
res["checks"] = checks
json.dump(res, open(os.path.join(seed, "eval.json"), "w"), indent=1)
subprocess.run(["git", "-C", "/verif", "worktree", "remove", "--force", vd], capture_output=True)
subprocess.run(["git", "-C", "/repo", "worktree", "remove", "--force", wt], capture_output=True)
print(json.dumps({k: res[k] for k in ("id", "applies", "builds", "existing_tests", "demo_fails_with_change", "demo_passes_without_change", "checks")}, indent=1)[:3000])
