#!/usr/bin/env python3
"""Check that regression tapes still mean something: replay each tape against a
scratch worktree of /repo in which the fix it belongs to is reverted; the tape
must reproduce its violation there (and be clean on HEAD, which the quick tier
checks on every run).
usage: regress_validate.py [tape commit]...   (default: the table below)"""
import json, subprocess, sys, os
env = dict(os.environ, GOFLAGS="-mod=mod", GOPROXY="off", GOSUMDB="off", GOTOOLCHAIN="local")
# Tapes whose violation is meanwhile prevented by a second, later fix as well (or whose
# schedule was shifted by a later change of the same function) are not listed: they
# still replay clean on HEAD, but reverting one fix no longer brings the violation back.
# (511ee29's two C04 tapes were validated until 8c57a91 rewrote the same function, 0ae2d62's
# C18 tape until 7c952f8 did; the tapes of 8c57a91, 1ff4d72 and 937fc09 until 1790497 added a
# lock to every state report.)
TABLE = [
 ("regress/C05/zombie-connection-after-shutdown.json", "de0edc7"),
 ("regress/C17/resolved-during-start-not-reported.json", "fef7e2e"),
 ("regress/C11/dead-connection-registered-4fdf982.json", "4fdf982"),
 ("regress/C05/dead-connection-registered-4fdf982.json", "4fdf982"),
 ("regress/C10/cancel-in-init-phase-7f3aedc.json", "7f3aedc"),
 ("regress/C05/stale-attempt-after-graceful-close-7248753.json", "7248753"),
 ("regress/C18/direct-state-overwritten-before-notified.json", "7c952f8"),
 ("regress/C18/loser-reports-between-close-and-close-reported.json", "1790497"),
]
pairs = TABLE
if len(sys.argv) > 2:
    pairs = list(zip(sys.argv[1::2], sys.argv[2::2]))
bad = 0
for tape, commit in pairs:
    wt = f"/tmp/wt_regval_{commit}"
    subprocess.run(["git", "-C", "/repo", "worktree", "remove", "--force", wt], capture_output=True)
    subprocess.run(["git", "-C", "/repo", "worktree", "add", "-q", "--detach", wt, "HEAD"], check=True)
    r = subprocess.run(["git", "-C", wt, "revert", "--no-commit", commit], capture_output=True, text=True)
    if r.returncode != 0:
        print(f"{tape}: {commit} cannot be reverted alone - skipped"); 
    else:
        e = dict(env, VERIF_REPO=wt)
        r = subprocess.run(["bin/verifctl", "replay", tape], cwd="/verif", env=e, capture_output=True, text=True)
        want = json.load(open(os.path.join("/verif", tape)))["signature"]
        ok = r.returncode == 1 and ("violation: " + want) in r.stdout
        print(f"{tape}: fix {commit} reverted -> {'reproduces ' + want if ok else 'DOES NOT REPRODUCE (exit %d) %s' % (r.returncode, r.stdout.strip().splitlines()[-1:] )}")
        bad += 0 if ok else 1
    subprocess.run(["git", "-C", "/repo", "worktree", "remove", "--force", wt], capture_output=True)
sys.exit(1 if bad else 0)
