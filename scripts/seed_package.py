#!/usr/bin/env python3
"""Package a confirmed seeded change into /verif/seeded/<id>/ .
usage: seed_package.py <id> <property> "<what it needs to manifest>" """
import json, os, shutil, sys, glob
sid, prop, needs = sys.argv[1], sys.argv[2], sys.argv[3]
src = f"/tmp/seed_{sid}"
dst = f"/verif/seeded/{sid}"
ev = json.load(open(os.path.join(src, "eval.json")))
os.makedirs(dst, exist_ok=True)
shutil.copy(os.path.join(src, "patch.diff"), dst)
for f in glob.glob(os.path.join(src, "*_test.go")) + glob.glob(os.path.join(src, "*", "*_test.go")):
    rel = os.path.relpath(f, src)
    os.makedirs(os.path.dirname(os.path.join(dst, "demo", rel)), exist_ok=True)
    shutil.copy(f, os.path.join(dst, "demo", rel))
for f in ("NOTES.md", "demo_cmd.txt"):
    if os.path.exists(os.path.join(src, f)):
        shutil.copy(os.path.join(src, f), dst)
for p in ev["checks"]:
    f = os.path.join(src, f"replay_{p}.json")
    if os.path.exists(f):
        shutil.copy(f, dst)
confirmed = ev["applies"] and ev["builds"] and all(v["ok"] for v in ev["existing_tests"].values()) and ev["demo_fails_with_change"] and ev["demo_passes_without_change"]
meta = {
    "id": sid, "breaks_property": prop, "author": "independent sub-agent that saw only the property text and a scratch worktree",
    "needs_to_manifest": needs,
    "confirmed_by_me": {"patch_applies_to_repo_head": ev["applies"], "builds": ev["builds"],
                        "existing_tests_of_touched_packages_pass": {k: v["ok"] for k, v in ev["existing_tests"].items()},
                        "demo_fails_with_change": ev["demo_fails_with_change"], "demo_passes_without_change": ev["demo_passes_without_change"],
                        "how": "scripts/seed_eval.py on a fresh scratch worktree of /repo HEAD (go build ./..., go test of the touched packages, the agent's demo with the patch applied and with it reverted)"},
    "confirmed": confirmed,
    "checks_run": {p: {"tier": "quick", "exit": v["exit"], "caught": v["caught"], "first_lines": v["lines"][:3], "wall_s": v["wall_s"]} for p, v in ev["checks"].items()},
    "how_checks_were_run": "bin/verifctl check <id> --tier quick with VERIF_REPO pointing at the scratch worktree holding the patch (equivalent to git -C /repo apply; /repo itself untouched)",
}
json.dump(meta, open(os.path.join(dst, "meta.json"), "w"), indent=1)
print(sid, "confirmed" if confirmed else "NOT CONFIRMED", {p: v["caught"] for p, v in ev["checks"].items()})
