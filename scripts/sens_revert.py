#!/usr/bin/env python3
"""Sensitivity by reverting fix: commits on a scratch worktree (never /repo).
For each (commit, property): revert the commit in the worktree, run the quick
check against it (VERIF_REPO), record whether a VIOLATION was reported.
usage: sens_revert.py <worktree> <out.json> [commit:prop ...]"""
import json, subprocess, sys, os, time
wt, out = sys.argv[1], sys.argv[2]
pairs = [a.split(":") for a in sys.argv[3:]]
env = dict(os.environ, GOFLAGS="-mod=mod", GOPROXY="off", GOSUMDB="off", GOTOOLCHAIN="local", VERIF_REPO=wt)
head = subprocess.check_output(["git", "-C", "/repo", "rev-parse", "HEAD"]).decode().strip()
res = []
for commit, prop in pairs:
    subprocess.run(["git", "-C", wt, "checkout", "-q", "--detach", head], check=True)
    subprocess.run(["git", "-C", wt, "reset", "-q", "--hard", head], check=True)
    r = subprocess.run(["git", "-C", wt, "revert", "-n", commit], capture_output=True, text=True)
    entry = {"commit": commit, "property": prop}
    if r.returncode != 0:
        subprocess.run(["git", "-C", wt, "revert", "--abort"], capture_output=True)
        subprocess.run(["git", "-C", wt, "reset", "-q", "--hard", head])
        entry["result"] = "revert-conflict"
        res.append(entry); continue
    b = subprocess.run(["go", "build", "./..."], cwd=wt, env=env, capture_output=True, text=True)
    if b.returncode != 0:
        entry["result"] = "does-not-build"; entry["detail"] = b.stderr[-400:]
        res.append(entry); continue
    t0 = time.time()
    c = subprocess.run(["bin/verifctl", "check", prop, "--tier", "quick"], env=env, capture_output=True, text=True)
    lines = [l for l in c.stdout.splitlines() if l.startswith("violation") or l.startswith("VIOLATION")]
    entry.update({"exit": c.returncode, "caught": c.returncode == 1, "wall_s": round(time.time() - t0, 1), "violations": [l[:300] for l in lines[:4]]})
    if c.returncode == 2:
        entry["stderr"] = c.stderr[-600:]
    res.append(entry)
    print(json.dumps(entry)[:400], flush=True)
    json.dump(res, open(out, "w"), indent=1)
subprocess.run(["git", "-C", wt, "reset", "-q", "--hard", head])
json.dump(res, open(out, "w"), indent=1)
