module verif

go 1.26.0

require (
	github.com/enbility/go-avahi v0.0.0-20240909195612-d5de6b280d7a
	github.com/enbility/ship-go v0.0.0
	github.com/godbus/dbus/v5 v5.1.0
	github.com/gorilla/websocket v1.5.3
	golang.org/x/tools v0.50.0
)

require (
	github.com/enbility/zeroconf/v2 v2.0.0-20240920094356-be1cae74fda6 // indirect
	github.com/miekg/dns v1.1.62 // indirect
	gitlab.com/c0b/go-ordered-json v0.0.0-20201030195603-febf46534d5a // indirect
	golang.org/x/mod v0.41.0 // indirect
	golang.org/x/net v0.59.0 // indirect
	golang.org/x/sync v0.23.0 // indirect
	golang.org/x/sys v0.48.0 // indirect
)

replace github.com/enbility/ship-go => /repo
