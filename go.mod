module verif

go 1.26.0

require (
	github.com/enbility/go-avahi v0.0.0-20240909195612-d5de6b280d7a
	github.com/enbility/ship-go v0.0.0
	github.com/gorilla/websocket v1.5.3
	golang.org/x/tools v0.50.0
)

require (
	golang.org/x/mod v0.41.0 // indirect
	golang.org/x/sync v0.23.0 // indirect
)

replace github.com/enbility/ship-go => /repo
