// Package simrt is the runtime of the deterministic simulator: cooperative
// tasks, a seeded scheduler, a choice tape, an agenda of timed events and
// simulator-owned replacements for sync primitives and channel operations.
//
// Instrumented ship-go code (see cmd/simgen) calls into this package; with no
// scheduler installed every entry point degenerates to the plain Go primitive.
package simrt

import (
	"container/heap"
	"fmt"
	"hash/fnv"
	"math/rand/v2"
	"runtime"
	"sort"
	"strconv"
	"strings"
	"sync"
	"sync/atomic"
	"testing/synctest"
	"time"
)

var cur atomic.Pointer[Sched]

// Current returns the installed scheduler or nil.
func Current() *Sched { return cur.Load() }

// Task is a goroutine under simulator control.
type Task struct {
	Label   string
	goid    int64
	wake    chan struct{}
	site    string // where it is parked
	blocked string // what it waits for while not parked (diagnostics)
	since   time.Time
	kids    map[string]int
	exited  atomic.Bool
	adopted bool
	budget  int // parallel mode: optional yields this task may still pass through
	// heldFor: child-first scheduling - this task is not scheduled while the task it
	// spawned is runnable (see Config.ChildFirst); heldSteps bounds the hold
	heldFor   *Task
	heldSteps int
	// last: spawn-last scheduling - this task is only scheduled when nothing else can
	// happen at this instant (1 = until it has run once, 2 = for its whole life);
	// lastSteps bounds it (see Config.SpawnLast)
	last      int
	lastSteps int
	// Group names the simulated process instance this task belongs to (inherited
	// by the tasks it spawns); a frozen group is never scheduled again (crash).
	Group string
	Panic any
	Stack string
}

// PanicInfo records a panic that ended a task.
type PanicInfo struct {
	Label string
	Value string
	Stack string
	Step  int
}

type event struct {
	at    time.Time
	seq   uint64
	name  string
	queue string // FIFO key: only the oldest event of a queue is enabled
	run   func()
	idx   int
}

type eventHeap []*event

func (h eventHeap) Len() int { return len(h) }
func (h eventHeap) Less(i, j int) bool {
	if !h[i].at.Equal(h[j].at) {
		return h[i].at.Before(h[j].at)
	}
	return h[i].seq < h[j].seq
}
func (h eventHeap) Swap(i, j int) { h[i], h[j] = h[j], h[i]; h[i].idx = i; h[j].idx = j }
func (h *eventHeap) Push(x any)   { e := x.(*event); e.idx = len(*h); *h = append(*h, e) }
func (h *eventHeap) Pop() any     { o := *h; n := len(o); e := o[n-1]; *h = o[:n-1]; return e }
func (h eventHeap) peek() *event  { return h[0] }

// Config of one run.
type Config struct {
	Seed      uint64 // PRNG seed for search mode
	Replay    []int  // if non-nil: replay mode, choices are read from here (0 when exhausted)
	KeepTrace bool
	MaxSteps  int
	Horizon   time.Duration // simulated time limit
	// Sticky is the probability that the scheduler keeps running the same
	// task in search mode (choice 0). 0 means: pick per run from the seed.
	Sticky float64
	// Parallel > 0 turns on "parallel rounds" (only used by the C20 race check):
	// with this probability a step releases several parked tasks at once, and a
	// released task passes through up to ParallelBudget optional yield points
	// before it parks again, so that the Go race detector sees the tasks'
	// steps as concurrent. Exact replay is lost in this mode.
	Parallel       float64
	ParallelBudget int
	// EventOrderByQueue: see enabled()
	EventOrderByQueue bool
	// StallProb > 0 turns on the "stalled goroutine" fault: at an optional yield
	// point the running task is, with this probability, descheduled for a short
	// simulated time (100 us .. 50 ms) - what a loaded machine does to any
	// goroutine at any instruction. The sticky scheduler alone rarely preempts
	// a task in the middle of a short critical sequence.
	StallProb float64
	// ChildFirst > 0: at a go statement the spawning task is, with this probability,
	// held back until the new task blocks or ends ("the goroutine runs before the
	// statement after go") - the schedule in which a notification started by a
	// goroutine arrives before its requester has finished, which the sticky
	// scheduler reaches only through a long run of unlikely choices.
	ChildFirst float64
	// SpawnLast > 0: with this probability a new task gets the lowest priority - it is
	// scheduled only when no other task and no due event is left at this instant (time
	// does not pass meanwhile) - until it has run once, or (every other time) for its whole
	// life: "the goroutine gets going only after everybody else has finished what they
	// were doing", the opposite of ChildFirst.
	SpawnLast float64
	// OnlySites, when non-empty, restricts optional yield points to sites
	// containing one of these substrings (site-targeted strategy).
	OnlySites []string
}

// Sched is one simulated execution.
type Sched struct {
	cfg Config

	mu         sync.Mutex
	byGoid     map[int64]*Task
	byGoidSync sync.Map
	parked     map[*Task]struct{}
	tasks      []*Task
	anon       map[string]int
	frozen     map[string]bool
	signal     chan struct{}
	abortCh    chan struct{}
	aborting   atomic.Bool

	last  *Task
	step  atomic.Int64
	start time.Time

	tapeMu    sync.Mutex
	tape      []int
	replayPos int
	rng       *rand.Rand
	sticky    float64

	agenda eventHeap
	seq    uint64

	hash   uint64
	trace  []string
	logMu  sync.Mutex
	panics []PanicInfo

	stopReason string
	stopped    atomic.Bool

	// Stats
	ParallelRounds int
	Preemptions    int
	Choices        map[string]int
	SitesUsed      map[string]int
	Faults         map[string]int
}

// New creates a scheduler; it must be created and run inside a synctest bubble.
func New(cfg Config) *Sched {
	if cfg.MaxSteps == 0 {
		cfg.MaxSteps = 200000
	}
	if cfg.Horizon == 0 {
		cfg.Horizon = 10 * time.Minute
	}
	s := &Sched{
		cfg:       cfg,
		byGoid:    map[int64]*Task{},
		parked:    map[*Task]struct{}{},
		anon:      map[string]int{},
		frozen:    map[string]bool{},
		signal:    make(chan struct{}, 1),
		abortCh:   make(chan struct{}),
		rng:       rand.New(rand.NewPCG(cfg.Seed, cfg.Seed^0x9e3779b97f4a7c15)),
		start:     time.Now(),
		Choices:   map[string]int{},
		SitesUsed: map[string]int{},
		Faults:    map[string]int{},
		hash:      14695981039346656037,
	}
	s.sticky = cfg.Sticky
	if s.sticky == 0 {
		opts := []float64{0.5, 0.8, 0.9, 0.97, 0.995}
		s.sticky = opts[s.rng.IntN(len(opts))]
	}
	return s
}

// Install makes s the scheduler instrumented code talks to.
func (s *Sched) Install()   { cur.Store(s) }
func (s *Sched) Uninstall() { cur.CompareAndSwap(s, nil) }

// Now returns simulated time since the start of the run.
func (s *Sched) Now() time.Duration { return time.Since(s.start) }
func (s *Sched) Step() int          { return int(s.step.Load()) }
func (s *Sched) Tape() []int        { return append([]int(nil), s.tape...) }
func (s *Sched) Hash() uint64       { return s.hash }
func (s *Sched) Trace() []string    { return s.trace }
func (s *Sched) Panics() []PanicInfo {
	s.mu.Lock()
	defer s.mu.Unlock()
	return append([]PanicInfo(nil), s.panics...)
}
func (s *Sched) Replaying() bool { return s.cfg.Replay != nil }

// Fault counts an injected fault that actually fired.
func (s *Sched) Fault(kind string) {
	s.logMu.Lock()
	s.Faults[kind]++
	s.logMu.Unlock()
}

// Logf appends to the event log (hashed always, kept if KeepTrace).
func (s *Sched) Logf(format string, args ...any) {
	msg := fmt.Sprintf(format, args...)
	s.logMu.Lock()
	line := strconv.Itoa(int(s.step.Load())) + " " + strconv.FormatInt(int64(s.Now()/time.Microsecond), 10) + "us " + msg
	h := fnv.New64a()
	var b [8]byte
	for i := 0; i < 8; i++ {
		b[i] = byte(s.hash >> (8 * i))
	}
	h.Write(b[:])
	h.Write([]byte(line))
	s.hash = h.Sum64()
	if s.cfg.KeepTrace {
		s.trace = append(s.trace, line)
	}
	s.logMu.Unlock()
}

// Tracef adds a line to the kept trace only: for effects whose order inside one step
// is decided by un-instrumented code (and does not matter), so that it must not
// enter the hash the determinism self-check compares.
func (s *Sched) Tracef(format string, args ...any) {
	if !s.cfg.KeepTrace {
		return
	}
	msg := fmt.Sprintf(format, args...)
	s.logMu.Lock()
	s.trace = append(s.trace, strconv.Itoa(int(s.step.Load()))+" "+strconv.FormatInt(int64(s.Now()/time.Microsecond), 10)+"us "+msg)
	s.logMu.Unlock()
}

// ---------------------------------------------------------------- choices

// Choose returns a value in [0,n); 0 is the boring choice.
func (s *Sched) Choose(kind string, n int) int {
	return s.choose(kind, n, -1)
}

// ChooseBiased returns 0 with probability pZero in search mode, otherwise a
// uniform value in [0,n).
func (s *Sched) ChooseBiased(kind string, n int, pZero float64) int {
	return s.choose(kind, n, pZero)
}

// Chance is true with probability p in search mode (tape value 1).
func (s *Sched) Chance(kind string, p float64) bool {
	return s.choose(kind, 2, 1-p) == 1
}

func (s *Sched) choose(kind string, n int, pZero float64) int {
	if n <= 1 {
		return 0
	}
	s.tapeMu.Lock()
	defer s.tapeMu.Unlock()
	var v int
	if s.cfg.Replay != nil {
		if s.replayPos < len(s.cfg.Replay) {
			v = s.cfg.Replay[s.replayPos]
			if v < 0 {
				v = -v
			}
			v %= n
		}
		s.replayPos++
	} else {
		if pZero >= 0 && s.rng.Float64() < pZero {
			v = 0
		} else {
			v = s.rng.IntN(n)
		}
	}
	s.tape = append(s.tape, v)
	s.Choices[kind]++
	return v
}

// ---------------------------------------------------------------- tasks

func goid() int64 {
	var buf [40]byte
	n := runtime.Stack(buf[:], false)
	// "goroutine 123 ["
	b := buf[10:n]
	var id int64
	for _, c := range b {
		if c < '0' || c > '9' {
			break
		}
		id = id*10 + int64(c-'0')
	}
	return id
}

func (s *Sched) current() *Task {
	id := goid()
	if s.cfg.Parallel > 0 {
		// lock-free in parallel mode: a mutex here would order the steps of
		// concurrently released tasks and hide races from the detector
		if v, ok := s.byGoidSync.Load(id); ok {
			return v.(*Task)
		}
		return nil
	}
	s.mu.Lock()
	t := s.byGoid[id]
	s.mu.Unlock()
	return t
}

// CurrentLabel returns the label of the calling task ("" if unknown).
func CurrentLabel() string {
	s := cur.Load()
	if s == nil {
		return ""
	}
	if t := s.current(); t != nil {
		return t.Label
	}
	return ""
}

// Adopt labels the calling goroutine (created by un-instrumented code) so it
// can be scheduled; hint must be canonical (e.g. derived from a SimConn id).
func Adopt(hint string) { AdoptIn(hint, "") }

// AdoptIn is Adopt with the process-instance group the goroutine belongs to.
func AdoptIn(hint, group string) {
	s := cur.Load()
	if s == nil {
		return
	}
	if s.current() == nil {
		t := s.adoptIn(hint, group)
		// A goroutine started by un-instrumented code (net/http's per-connection
		// goroutine) runs concurrently with whoever started it until it gets here:
		// from now on it is an ordinary task that only runs when scheduled.
		s.park(t, "adopted")
	}
}

func (s *Sched) adopt(hint string) *Task { return s.adoptIn(hint, "") }

func (s *Sched) adoptIn(hint, group string) *Task {
	id := goid()
	s.mu.Lock()
	defer s.mu.Unlock()
	if t := s.byGoid[id]; t != nil {
		return t
	}
	n := s.anon[hint]
	s.anon[hint] = n + 1
	t := &Task{Label: "~" + hint + "#" + strconv.Itoa(n), goid: id, wake: make(chan struct{}), adopted: true, Group: group}
	s.byGoid[id] = t
	s.byGoidSync.Store(id, t)
	s.tasks = append(s.tasks, t)
	return t
}

func (s *Sched) childLabel(parent *Task, site string) string {
	s.mu.Lock()
	defer s.mu.Unlock()
	if parent == nil {
		n := s.anon["root/"+site]
		s.anon["root/"+site] = n + 1
		if n == 0 {
			return site
		}
		return site + "#" + strconv.Itoa(n)
	}
	if parent.kids == nil {
		parent.kids = map[string]int{}
	}
	n := parent.kids[site]
	parent.kids[site] = n + 1
	base := parent.Label
	if len(base) > 200 {
		// goroutine chains (a re-dial loop spawns each attempt from the previous
		// one) would make labels grow without bound: keep the node prefix and the
		// tail, replace the middle by a hash of the whole
		h := fnv.New64a()
		h.Write([]byte(base))
		node := ""
		if i := strings.IndexByte(base, ':'); i >= 0 && i < 40 {
			node = base[:i+1]
		}
		base = node + "..." + strconv.FormatUint(h.Sum64(), 16) + base[len(base)-80:]
	}
	return base + "/" + site + "#" + strconv.Itoa(n)
}

// Go starts f as a new task; called by instrumented code for every go
// statement and by harness code.
func Go(site string, f func()) {
	s := cur.Load()
	if s == nil || s.aborting.Load() {
		go f()
		return
	}
	parent := s.current()
	s.spawn(s.childLabel(parent, site), f)
}

// GoTask is Go for harness code that wants the task handle.
func (s *Sched) GoTask(label string, f func()) *Task {
	return s.spawn(s.childLabel(nil, label), f)
}

func (s *Sched) spawn(label string, f func()) *Task {
	t := &Task{Label: label, wake: make(chan struct{})}
	if p := s.current(); p != nil {
		t.Group = p.Group
	}
	if p := s.current(); p != nil && s.cfg.ChildFirst > 0 && s.cfg.Parallel == 0 && !s.aborting.Load() {
		if s.choose("child-first", 2, 1-s.cfg.ChildFirst) == 1 {
			s.mu.Lock()
			p.heldFor, p.heldSteps = t, 0
			s.mu.Unlock()
			s.Fault("child-first")
		}
	}
	if t.heldForNobody(s) && s.cfg.SpawnLast > 0 && s.cfg.Parallel == 0 && !s.aborting.Load() && s.current() != nil {
		if v := s.choose("spawn-last", 3, 1-s.cfg.SpawnLast); v > 0 {
			t.last = v
			s.Fault("spawn-last")
		}
	}
	s.mu.Lock()
	s.tasks = append(s.tasks, t)
	s.mu.Unlock()
	go func() {
		t.goid = goid()
		s.mu.Lock()
		s.byGoid[t.goid] = t
		s.mu.Unlock()
		s.byGoidSync.Store(t.goid, t)
		defer s.finish(t)
		s.park(t, "start")
		f()
	}()
	return t
}

func (s *Sched) finish(t *Task) {
	if r := recover(); r != nil {
		buf := make([]byte, 16384)
		n := runtime.Stack(buf, false)
		t.Panic = r
		t.Stack = string(buf[:n])
		s.mu.Lock()
		s.panics = append(s.panics, PanicInfo{Label: t.Label, Value: fmt.Sprint(r), Stack: t.Stack, Step: int(s.step.Load())})
		s.mu.Unlock()
		s.Logf("PANIC task=%s value=%v", t.Label, r)
	}
	s.mu.Lock()
	t.exited.Store(true)
	delete(s.byGoid, t.goid)
	s.mu.Unlock()
	s.byGoidSync.Delete(t.goid)
	select {
	case s.signal <- struct{}{}:
	default:
	}
}

// Exited reports whether a spawned task has returned (or panicked).
func (t *Task) Exited() bool { return t.exited.Load() }

func (s *Sched) park(t *Task, site string) {
	if s.parkSoft(t, site) {
		runtime.Goexit()
	}
}

// parkSoft parks the calling task until it is scheduled; it returns true if
// the run is being torn down instead (the caller must unwind on its own).
func (s *Sched) parkSoft(t *Task, site string) bool {
	if s.aborting.Load() {
		return true
	}
	t.site = site
	s.mu.Lock()
	s.parked[t] = struct{}{}
	s.mu.Unlock()
	select {
	case s.signal <- struct{}{}:
	default:
	}
	select {
	case <-t.wake:
	case <-s.abortCh:
	}
	return s.aborting.Load()
}

// The *Soft variants are for the simulated network: during tear-down they
// return true instead of ending the goroutine, so that the operation can
// return an error and un-instrumented callers (net/http, which waits for its
// background reader under a sync.Cond) unwind the ordinary way.

// AdoptSoft is AdoptIn; true means the run is being torn down.
func AdoptSoft(hint, group string) bool {
	s := cur.Load()
	if s == nil {
		return false
	}
	if s.current() == nil {
		t := s.adoptIn(hint, group)
		return s.parkSoft(t, "adopted")
	}
	return s.aborting.Load()
}

// YieldSoft is Yield; true means the run is being torn down.
func YieldSoft(site string) bool {
	s := cur.Load()
	if s == nil {
		return false
	}
	t := s.current()
	if t == nil {
		return false
	}
	if len(s.cfg.OnlySites) > 0 && !s.siteSelected(site) {
		return s.aborting.Load()
	}
	if t.budget > 0 {
		t.budget--
		return s.aborting.Load()
	}
	return s.parkSoft(t, site)
}

// YieldMustSoft is YieldMust; true means the run is being torn down.
func YieldMustSoft(site string) bool {
	s := cur.Load()
	if s == nil {
		return false
	}
	t := s.current()
	if t == nil {
		t = s.adopt("anon:" + site)
	}
	return s.parkSoft(t, site)
}

// Yield is an optional schedule point (before an operation).
func Yield(site string) {
	s := cur.Load()
	if s == nil {
		return
	}
	t := s.current()
	if t == nil {
		// a goroutine the simulator does not know: leave it alone
		return
	}
	if len(s.cfg.OnlySites) > 0 && !s.siteSelected(site) {
		if s.aborting.Load() {
			runtime.Goexit()
		}
		return
	}
	if t.budget > 0 {
		t.budget--
		if s.aborting.Load() {
			runtime.Goexit()
		}
		return
	}
	if s.cfg.StallProb > 0 && s.cfg.Parallel == 0 && !s.aborting.Load() {
		if s.choose("stall", 2, 1-2*s.cfg.StallProb) == 1 {
			d := stallDurations[s.choose("stall-for", len(stallDurations), 0.4)]
			s.Fault("stall")
			s.Logf("fault stall %s for %v @%s", t.Label, d, site)
			Sleep(d) // ends with a mandatory schedule point
			return
		}
	}
	s.park(t, site)
}

var stallDurations = []time.Duration{time.Millisecond, 100 * time.Microsecond, 5 * time.Millisecond, 50 * time.Millisecond}

// YieldMust is a mandatory schedule point (after a wake-up caused by another
// goroutine or by the clock).
func YieldMust(site string) {
	s := cur.Load()
	if s == nil {
		return
	}
	t := s.current()
	if t == nil {
		t = s.adopt("anon:" + site)
	}
	s.park(t, site)
}

func (s *Sched) siteSelected(site string) bool {
	for _, p := range s.cfg.OnlySites {
		if strings.Contains(site, p) {
			return true
		}
	}
	return false
}

// setBlocked records what the calling task waits for (diagnostics only).
func (s *Sched) setBlocked(what string) *Task {
	t := s.current()
	if t != nil {
		t.blocked = what
		t.since = time.Now()
	}
	return t
}

// AbortCh is closed when the run is torn down; blocking helpers select on it.
func (s *Sched) AbortCh() <-chan struct{} { return s.abortCh }

// ExitIfAborting terminates the calling goroutine during tear-down.
func (s *Sched) ExitIfAborting() {
	if s.aborting.Load() {
		runtime.Goexit()
	}
}

// Sleep is time.Sleep on the simulated clock followed by a schedule point.
func Sleep(d time.Duration) {
	s := cur.Load()
	if s == nil {
		time.Sleep(d)
		return
	}
	tm := time.NewTimer(d)
	t := s.setBlocked("sleep")
	select {
	case <-tm.C:
	case <-s.abortCh:
		tm.Stop()
		runtime.Goexit()
	}
	if t != nil {
		t.blocked = ""
	}
	YieldMust("sleep")
}

// ---------------------------------------------------------------- agenda

// After schedules f to run on the scheduler goroutine at now+d. Events with
// the same non-empty queue key are executed in FIFO order.
func (s *Sched) After(d time.Duration, name, queue string, f func()) {
	s.mu.Lock()
	s.seq++
	e := &event{at: time.Now().Add(d), seq: s.seq, name: name, queue: queue, run: f}
	heap.Push(&s.agenda, e)
	s.mu.Unlock()
	select {
	case s.signal <- struct{}{}:
	default:
	}
}

// PendingEvents returns the number of agenda events not yet executed.
func (s *Sched) PendingEvents() int {
	s.mu.Lock()
	defer s.mu.Unlock()
	return len(s.agenda)
}

// LimitSteps lowers the step budget of this run (scenario variants that are
// expensive per step).
func (s *Sched) LimitSteps(n int) {
	if n < s.cfg.MaxSteps {
		s.cfg.MaxSteps = n
	}
}

// Stop ends the run after the current step.
func (s *Sched) Stop(reason string) {
	if s.stopped.CompareAndSwap(false, true) {
		s.stopReason = reason
		select {
		case s.signal <- struct{}{}:
		default:
		}
	}
}

func (s *Sched) Stopped() bool { return s.stopped.Load() }

type action struct {
	t *Task
	e *event
}

// Run drives the simulation until Stop, the horizon or the step budget.
// invariant (may be nil) runs after every step on the scheduler goroutine.
// It returns the reason the run ended.
func (s *Sched) Run(invariant func() string) string {
	deadline := s.start.Add(s.cfg.Horizon)
	for {
		synctest.Wait()
		if invariant != nil {
			if v := invariant(); v != "" {
				s.Stop(v)
			}
		}
		if s.stopped.Load() {
			return s.stopReason
		}
		if len(s.Panics()) > 0 {
			return "panic"
		}
		if int(s.step.Load()) >= s.cfg.MaxSteps {
			return "budget"
		}
		now := time.Now()
		if !now.Before(deadline) {
			return "horizon"
		}

		acts := s.enabled(now)
		if len(acts) == 0 {
			// nothing can happen at this instant: let simulated time pass
			var d time.Duration
			s.mu.Lock()
			if len(s.agenda) > 0 {
				d = s.agenda.peek().at.Sub(now)
			} else {
				d = deadline.Sub(now)
			}
			s.mu.Unlock()
			if d > deadline.Sub(now) {
				d = deadline.Sub(now)
			}
			if d <= 0 {
				d = time.Nanosecond
			}
			// drain a stale signal
			select {
			case <-s.signal:
			default:
			}
			tm := time.NewTimer(d)
			select {
			case <-s.signal:
				tm.Stop()
			case <-tm.C:
			}
			continue
		}

		var i int
		if len(acts) > 1 {
			if s.cfg.Replay != nil {
				i = s.choose("sched", len(acts), -1)
			} else {
				i = s.choose("sched", len(acts), s.sticky)
			}
		}
		a := acts[i]
		s.step.Add(1)
		if a.t != nil && s.cfg.Parallel > 0 && s.rng.Float64() < s.cfg.Parallel {
			// parallel round: release a set of parked tasks at once
			var set []*Task
			for _, o := range acts {
				if o.t != nil && (o.t == a.t || s.rng.IntN(2) == 0) {
					set = append(set, o.t)
				}
			}
			s.ParallelRounds++
			s.mu.Lock()
			for _, t := range set {
				delete(s.parked, t)
				t.budget = 1 + s.rng.IntN(s.cfg.ParallelBudget+1)
			}
			s.mu.Unlock()
			s.last = a.t
			for _, t := range set {
				t.wake <- struct{}{}
			}
			continue
		}
		if a.t != nil {
			if s.last != nil && a.t != s.last {
				if _, ok := s.parked[s.last]; ok {
					s.Preemptions++
				}
			}
			s.logMu.Lock()
			s.SitesUsed[a.t.site]++
			s.logMu.Unlock()
			if a.t.last == 1 {
				a.t.last = 0
			}
			s.Logf("run %s @%s", a.t.Label, a.t.site)
			s.mu.Lock()
			delete(s.parked, a.t)
			s.mu.Unlock()
			s.last = a.t
			a.t.wake <- struct{}{}
		} else {
			s.Logf("ev %s", a.e.name)
			s.mu.Lock()
			heap.Remove(&s.agenda, a.e.idx)
			s.mu.Unlock()
			a.e.run()
		}
	}
}

// held reports whether t is held back for the task it spawned (s.mu held). The hold
// ends when that task has ended, is not runnable (it blocks or sleeps), belongs to a
// frozen group, or after 64 scheduling decisions.
func (s *Sched) held(t *Task) bool {
	c := t.heldFor
	if c == nil {
		return false
	}
	_, runnable := s.parked[c]
	if c.exited.Load() || !runnable || (c.Group != "" && s.frozen[c.Group]) || t.heldSteps >= 64 {
		t.heldFor = nil
		return false
	}
	t.heldSteps++
	return true
}

// heldForNobody: no task is being held back for t (a task cannot be run first and last).
func (t *Task) heldForNobody(s *Sched) bool {
	if p := s.current(); p != nil {
		s.mu.Lock()
		defer s.mu.Unlock()
		return p.heldFor != t
	}
	return true
}

func (s *Sched) enabled(now time.Time) []action {
	s.mu.Lock()
	defer s.mu.Unlock()
	acts := make([]action, 0, len(s.parked)+4)
	// the task that ran last comes first (the sticky choice) - or, if it is held back for
	// a task it spawned, that task
	lead := s.last
	for lead != nil {
		if _, ok := s.parked[lead]; !ok || !s.held(lead) {
			break
		}
		lead = lead.heldFor
	}
	if lead != nil && !s.frozen[lead.Group] {
		if _, ok := s.parked[lead]; ok {
			acts = append(acts, action{t: lead})
		} else {
			lead = nil
		}
	} else {
		lead = nil
	}
	rest := make([]*Task, 0, len(s.parked))
	for t := range s.parked {
		if t != lead && !(t.Group != "" && s.frozen[t.Group]) && !s.held(t) {
			rest = append(rest, t)
		}
	}
	sort.Slice(rest, func(i, j int) bool { return rest[i].Label < rest[j].Label })
	for _, t := range rest {
		acts = append(acts, action{t: t})
	}
	// due events: oldest per queue
	var due []*event
	for _, e := range s.agenda {
		if !e.at.After(now) {
			due = append(due, e)
		}
	}
	sort.Slice(due, func(i, j int) bool {
		if !due[i].at.Equal(due[j].at) {
			return due[i].at.Before(due[j].at)
		}
		if s.cfg.EventOrderByQueue {
			// events due at the same instant: ordered by their queue (or name), not by the
			// order in which they happened to be created - un-instrumented code may create
			// them in the iteration order of a Go map (net/http closing idle connections);
			// within one queue creation order is kept (FIFO)
			ki, kj := due[i].queue, due[j].queue
			if ki == "" {
				ki = due[i].name
			}
			if kj == "" {
				kj = due[j].name
			}
			if ki != kj {
				return ki < kj
			}
		}
		return due[i].seq < due[j].seq
	})
	seenQ := map[string]bool{}
	for _, e := range due {
		if e.queue != "" {
			if seenQ[e.queue] {
				continue
			}
			seenQ[e.queue] = true
		}
		acts = append(acts, action{e: e})
	}
	// spawn-last tasks only when nothing else is left (each for at most 2000 decisions)
	n := 0
	for _, a := range acts {
		if a.t == nil || a.t.last == 0 {
			n++
		}
	}
	if n > 0 && n < len(acts) {
		kept := acts[:0]
		for _, a := range acts {
			if a.t != nil && a.t.last != 0 {
				if a.t.lastSteps++; a.t.lastSteps < 2000 {
					continue
				}
				a.t.last = 0
			}
			kept = append(kept, a)
		}
		acts = kept
	}
	return acts
}

// SetGroup puts the calling task (and everything it spawns from now on) into
// process-instance group g.
func SetGroup(g string) {
	if s := cur.Load(); s != nil {
		if t := s.current(); t != nil {
			t.Group = g
		}
	}
}

// CurrentGroup returns the group of the calling task ("" if none).
func CurrentGroup() string {
	if s := cur.Load(); s != nil {
		if t := s.current(); t != nil {
			return t.Group
		}
	}
	return ""
}

// Freeze models the crash of a process instance: no task of group g is ever
// scheduled again (they stay parked until tear-down). Timers they armed may
// still fire, the woken task parks at its mandatory schedule point and stays
// there.
func (s *Sched) Freeze(g string) {
	if g == "" {
		return
	}
	s.mu.Lock()
	s.frozen[g] = true
	s.mu.Unlock()
	s.Logf("freeze %s", g)
}

// Frozen reports whether group g was frozen.
func (s *Sched) Frozen(g string) bool {
	s.mu.Lock()
	defer s.mu.Unlock()
	return g != "" && s.frozen[g]
}

// Teardown aborts all tasks. Call it on the scheduler goroutine after Run.
func (s *Sched) Teardown() {
	s.aborting.Store(true)
	close(s.abortCh)
	for i := 0; i < 1000; i++ {
		synctest.Wait()
		s.mu.Lock()
		n := len(s.parked)
		s.parked = map[*Task]struct{}{}
		s.mu.Unlock()
		if n == 0 {
			break
		}
	}
	s.Uninstall()
}

// Blocked lists tasks that are alive, not parked and blocked in a simulator
// primitive, with what they wait for (wedge diagnostics).
func (s *Sched) Blocked() []string {
	s.mu.Lock()
	defer s.mu.Unlock()
	var out []string
	for _, t := range s.tasks {
		if t.exited.Load() {
			continue
		}
		if _, p := s.parked[t]; p {
			continue
		}
		if t.blocked != "" {
			out = append(out, t.Label+" waits "+t.blocked+" since "+t.since.Sub(s.start).String())
		}
	}
	sort.Strings(out)
	return out
}

// Tasks returns all tasks created so far.
func (s *Sched) Tasks() []*Task {
	s.mu.Lock()
	defer s.mu.Unlock()
	return append([]*Task(nil), s.tasks...)
}

// BlockedWhat / BlockedSince expose wedge diagnostics for oracles.
func (t *Task) BlockedWhat() string     { return t.blocked }
func (t *Task) BlockedSince() time.Time { return t.since }
func (t *Task) Site() string            { return t.site }
func (t *Task) Adopted() bool           { return t.adopted }
