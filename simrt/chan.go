package simrt

import (
	"cmp"
	"fmt"
	mrand "math/rand/v2"
	"reflect"
	"runtime"
	"sort"
	"sync/atomic"
	"time"
)

// Recv replaces `<-ch`.
func Recv[T any](site string, ch <-chan T) T {
	v, _ := Recv2(site, ch)
	return v
}

// Recv2 replaces `v, ok := <-ch`.
func Recv2[T any](site string, ch <-chan T) (T, bool) {
	s := cur.Load()
	if s == nil {
		v, ok := <-ch
		return v, ok
	}
	Yield("recv " + site)
	select {
	case v, ok := <-ch:
		return v, ok
	default:
	}
	t := s.setBlocked("recv " + site)
	var v T
	var ok bool
	select {
	case v, ok = <-ch:
	case <-s.abortCh:
		runtime.Goexit()
	}
	if t != nil {
		t.blocked = ""
	}
	YieldMust("recv " + site + " (woken)")
	return v, ok
}

// Send replaces `ch <- v`.
func Send[T any](site string, ch chan<- T, v T) {
	s := cur.Load()
	if s == nil {
		ch <- v
		return
	}
	Yield("send " + site)
	select {
	case ch <- v:
		return
	default:
	}
	t := s.setBlocked("send " + site)
	select {
	case ch <- v:
	case <-s.abortCh:
		runtime.Goexit()
	}
	if t != nil {
		t.blocked = ""
	}
	YieldMust("send " + site + " (woken)")
}

// Case is one communication clause of a rewritten select statement.
type Case interface {
	selCase() reflect.SelectCase
	selSet(v reflect.Value, ok bool)
}

type RecvCase[T any] struct {
	ch  <-chan T
	Val T
	Ok  bool
}

func RecvC[T any](ch <-chan T) *RecvCase[T] { return &RecvCase[T]{ch: ch} }

func (c *RecvCase[T]) selCase() reflect.SelectCase {
	return reflect.SelectCase{Dir: reflect.SelectRecv, Chan: reflect.ValueOf(c.ch)}
}
func (c *RecvCase[T]) selSet(v reflect.Value, ok bool) {
	c.Ok = ok
	if v.IsValid() {
		c.Val, _ = v.Interface().(T)
	}
}

type SendCase[T any] struct {
	ch chan<- T
	v  T
}

func SendC[T any](ch chan<- T, v T) *SendCase[T] { return &SendCase[T]{ch: ch, v: v} }

func (c *SendCase[T]) selCase() reflect.SelectCase {
	return reflect.SelectCase{Dir: reflect.SelectSend, Chan: reflect.ValueOf(c.ch), Send: reflect.ValueOf(&c.v).Elem()}
}
func (c *SendCase[T]) selSet(reflect.Value, bool) {}

// Select replaces a select statement; it returns the index of the chosen
// case or -1 for default.
func Select(site string, hasDefault bool, cases ...Case) int {
	s := cur.Load()
	rc := make([]reflect.SelectCase, len(cases), len(cases)+1)
	for i, c := range cases {
		rc[i] = c.selCase()
	}
	if s == nil {
		if hasDefault {
			rc = append(rc, reflect.SelectCase{Dir: reflect.SelectDefault})
		}
		i, v, ok := reflect.Select(rc)
		if hasDefault && i == len(cases) {
			return -1
		}
		cases[i].selSet(v, ok)
		return i
	}
	Yield("select " + site)
	n := len(cases)
	start := 0
	if n >= 2 {
		start = s.choose("select", n, 0.8)
	}
	two := make([]reflect.SelectCase, 2)
	two[1] = reflect.SelectCase{Dir: reflect.SelectDefault}
	for k := 0; k < n; k++ {
		i := (start + k) % n
		two[0] = rc[i]
		if j, v, ok := reflect.Select(two); j == 0 {
			cases[i].selSet(v, ok)
			return i
		}
	}
	if hasDefault {
		return -1
	}
	t := s.setBlocked("select " + site)
	rc = append(rc, reflect.SelectCase{Dir: reflect.SelectRecv, Chan: reflect.ValueOf(s.abortCh)})
	i, v, ok := reflect.Select(rc)
	if i == n {
		runtime.Goexit()
	}
	if t != nil {
		t.blocked = ""
	}
	cases[i].selSet(v, ok)
	YieldMust("select " + site + " (woken)")
	return i
}

// MapKeys returns the keys of m in a canonical order (sorted), rotated by a
// simulator choice; it replaces the randomised iteration order of range.
func MapKeys[K comparable, V any](site string, m map[K]V) []K {
	keys := make([]K, 0, len(m))
	for k := range m {
		keys = append(keys, k)
	}
	sortKeys(keys)
	s := cur.Load()
	if s == nil || len(keys) < 2 {
		return keys
	}
	r := s.choose("maporder", len(keys), 0.8)
	if r == 0 {
		return keys
	}
	out := make([]K, 0, len(keys))
	out = append(out, keys[r:]...)
	out = append(out, keys[:r]...)
	return out
}

func sortKeys[K comparable](keys []K) {
	switch ks := any(keys).(type) {
	case []string:
		sort.Strings(ks)
	case []int:
		sort.Ints(ks)
	default:
		sort.Slice(keys, func(i, j int) bool {
			return cmp.Compare(fmt.Sprint(keys[i]), fmt.Sprint(keys[j])) < 0
		})
	}
}

// Intn replaces math/rand.Intn & co: the value is a simulator decision.
func Intn[T ~int | ~int32 | ~int64 | ~uint | ~uint32 | ~uint64](site string, n T) T {
	s := cur.Load()
	if s == nil {
		return T(mrand.Int64N(int64(n)))
	}
	if n <= 1 {
		return 0
	}
	// three interesting classes: minimum, maximum, anything
	switch s.choose("rand-class", 3, 0.4) {
	case 0:
		return 0
	case 1:
		return n - 1
	default:
		return T(s.choose("rand", int(n), -1))
	}
}

// AfterFunc replaces time.AfterFunc: f runs as a labelled task.
func AfterFunc(site string, d time.Duration, f func()) *time.Timer {
	s := cur.Load()
	if s == nil {
		return time.AfterFunc(d, f)
	}
	parent := s.current()
	label := s.childLabel(parent, "timer "+site)
	group := ""
	if parent != nil {
		group = parent.Group
	}
	return time.AfterFunc(d, func() {
		id := goid()
		t := &Task{Label: label, goid: id, wake: make(chan struct{}), Group: group}
		s.mu.Lock()
		s.byGoid[id] = t
		s.tasks = append(s.tasks, t)
		s.mu.Unlock()
		defer s.finish(t)
		s.park(t, "timer fired")
		f()
	})
}

// ProbeHook receives the calls of probed functions (rule R8); set per run.
var ProbeHook atomic.Pointer[func(name string, args []any)]

// Probe is inserted by simgen as first statement of a few functions.
func Probe(name string, args ...any) {
	if h := ProbeHook.Load(); h != nil {
		(*h)(name, args)
	}
}

// ChanLock acquires a mutex that a dependency implements as a one-element
// channel (gorilla/websocket's write lock). Nothing happens - no schedule
// point, no choice - when the lock is free; when it is held, the caller blocks
// under the simulator's control and passes a mandatory schedule point when it
// gets the lock, so that the holder's release does not let two tasks run at the
// same time.
func ChanLock(site string, mu chan struct{}) {
	s := cur.Load()
	if s == nil {
		<-mu
		return
	}
	select {
	case <-mu:
		return
	default:
	}
	t := s.setBlocked("chanlock " + site)
	select {
	case <-mu:
	case <-s.abortCh:
		runtime.Goexit()
	}
	if t != nil {
		t.blocked = ""
	}
	YieldMust("chanlock " + site + " (woken)")
}

// ChanLockTimer is ChanLock with a timeout given as a running timer; it
// reports whether the lock was acquired.
func ChanLockTimer(site string, mu chan struct{}, timer *time.Timer) bool {
	s := cur.Load()
	if s == nil {
		select {
		case <-mu:
			timer.Stop()
			return true
		case <-timer.C:
			return false
		}
	}
	select {
	case <-mu:
		timer.Stop()
		return true
	default:
	}
	t := s.setBlocked("chanlock " + site)
	got := false
	select {
	case <-mu:
		timer.Stop()
		got = true
	case <-timer.C:
	case <-s.abortCh:
		runtime.Goexit()
	}
	if t != nil {
		t.blocked = ""
	}
	YieldMust("chanlock " + site + " (woken)")
	return got
}
