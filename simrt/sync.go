package simrt

import (
	"runtime"
	"sync"
	"sync/atomic"
)

// The types below replace sync.Mutex / RWMutex / Once / WaitGroup in
// instrumented code (the "sync" import of a ship-go file is redirected to this
// package). Blocking is done on channels so that it is *durable* for
// testing/synctest, and every acquisition is a schedule point.

type (
	Locker = sync.Locker
	Map    = sync.Map
	Cond   = sync.Cond
)

func NewCond(l Locker) *Cond { return sync.NewCond(l) }

func OnceFunc(f func()) func() { return sync.OnceFunc(f) }

func callerSite(prefix string, skip int) string {
	var pcs [1]uintptr
	if runtime.Callers(skip+1, pcs[:]) == 0 {
		return prefix
	}
	pc := pcs[0]
	if v, ok := siteCache.Load(pc); ok {
		return prefix + v.(string)
	}
	fr, _ := runtime.CallersFrames(pcs[:]).Next()
	file := fr.File
	// keep the last two path elements
	cnt := 0
	for i := len(file) - 1; i >= 0; i-- {
		if file[i] == '/' {
			cnt++
			if cnt == 2 {
				file = file[i+1:]
				break
			}
		}
	}
	str := file + ":" + itoa(fr.Line)
	siteCache.Store(pc, str)
	return prefix + str
}

var siteCache sync.Map

func itoa(n int) string {
	if n == 0 {
		return "0"
	}
	var b [12]byte
	i := len(b)
	for n > 0 {
		i--
		b[i] = byte('0' + n%10)
		n /= 10
	}
	return string(b[i:])
}

// Mutex is a channel-based mutual exclusion lock.
type Mutex struct {
	ch atomic.Pointer[chan struct{}]
}

func (m *Mutex) c() chan struct{} {
	if p := m.ch.Load(); p != nil {
		return *p
	}
	c := make(chan struct{}, 1)
	if m.ch.CompareAndSwap(nil, &c) {
		return c
	}
	return *m.ch.Load()
}

func (m *Mutex) Lock() {
	c := m.c()
	s := cur.Load()
	if s == nil {
		c <- struct{}{}
		return
	}
	site := callerSite("lock ", 2)
	Yield(site)
	select {
	case c <- struct{}{}:
		return
	default:
	}
	t := s.setBlocked("mutex " + site)
	select {
	case c <- struct{}{}:
	case <-s.abortCh:
		runtime.Goexit()
	}
	if t != nil {
		t.blocked = ""
	}
	YieldMust(site + " (granted)")
}

func (m *Mutex) TryLock() bool {
	select {
	case m.c() <- struct{}{}:
		return true
	default:
		return false
	}
}

func (m *Mutex) Unlock() {
	select {
	case <-m.c():
	default:
		panic("sync: unlock of unlocked mutex")
	}
}

// RWMutex keeps reader/writer semantics (readers share).
type RWMutex struct {
	g       sync.Mutex // guards the fields below; held only briefly, never across a yield
	readers int
	writer  bool
	wwait   int
	waiters []chan struct{}
}

func (rw *RWMutex) wakeAll() {
	for _, w := range rw.waiters {
		close(w)
	}
	rw.waiters = nil
}

func (rw *RWMutex) wait(site string) {
	// rw.g is held on entry and released here
	w := make(chan struct{})
	rw.waiters = append(rw.waiters, w)
	rw.g.Unlock()
	s := cur.Load()
	if s == nil {
		<-w
		return
	}
	t := s.setBlocked("rwmutex " + site)
	select {
	case <-w:
	case <-s.abortCh:
		runtime.Goexit()
	}
	if t != nil {
		t.blocked = ""
	}
	YieldMust(site + " (granted)")
}

func (rw *RWMutex) Lock() {
	site := ""
	if cur.Load() != nil {
		site = callerSite("lock ", 2)
		Yield(site)
	}
	rw.g.Lock()
	rw.wwait++
	for rw.writer || rw.readers > 0 {
		rw.wait(site)
		rw.g.Lock()
	}
	rw.wwait--
	rw.writer = true
	rw.g.Unlock()
}

func (rw *RWMutex) Unlock() {
	rw.g.Lock()
	if !rw.writer {
		rw.g.Unlock()
		panic("sync: Unlock of unlocked RWMutex")
	}
	rw.writer = false
	rw.wakeAll()
	rw.g.Unlock()
}

func (rw *RWMutex) RLock() {
	site := ""
	if cur.Load() != nil {
		site = callerSite("rlock ", 2)
		Yield(site)
	}
	rw.g.Lock()
	for rw.writer || rw.wwait > 0 {
		rw.wait(site)
		rw.g.Lock()
	}
	rw.readers++
	rw.g.Unlock()
}

func (rw *RWMutex) RUnlock() {
	rw.g.Lock()
	if rw.readers <= 0 {
		rw.g.Unlock()
		panic("sync: RUnlock of unlocked RWMutex")
	}
	rw.readers--
	if rw.readers == 0 {
		rw.wakeAll()
	}
	rw.g.Unlock()
}

func (rw *RWMutex) TryLock() bool {
	rw.g.Lock()
	defer rw.g.Unlock()
	if rw.writer || rw.readers > 0 {
		return false
	}
	rw.writer = true
	return true
}

func (rw *RWMutex) TryRLock() bool {
	rw.g.Lock()
	defer rw.g.Unlock()
	if rw.writer || rw.wwait > 0 {
		return false
	}
	rw.readers++
	return true
}

func (rw *RWMutex) RLocker() Locker { return (*rlocker)(rw) }

type rlocker RWMutex

func (r *rlocker) Lock()   { (*RWMutex)(r).RLock() }
func (r *rlocker) Unlock() { (*RWMutex)(r).RUnlock() }

// Once: concurrent callers wait until the first Do returned, like sync.Once.
type Once struct {
	g    sync.Mutex
	done bool
	run  chan struct{} // non-nil while f runs
}

func (o *Once) Do(f func()) {
	site := ""
	if cur.Load() != nil {
		site = callerSite("once ", 2)
		Yield(site)
	}
	o.g.Lock()
	if o.done {
		o.g.Unlock()
		return
	}
	if o.run != nil {
		w := o.run
		o.g.Unlock()
		s := cur.Load()
		if s == nil {
			<-w
			return
		}
		t := s.setBlocked("once " + site)
		select {
		case <-w:
		case <-s.abortCh:
			runtime.Goexit()
		}
		if t != nil {
			t.blocked = ""
		}
		YieldMust(site + " (done)")
		return
	}
	w := make(chan struct{})
	o.run = w
	o.g.Unlock()
	defer func() {
		o.g.Lock()
		o.done = true
		o.run = nil
		o.g.Unlock()
		close(w)
	}()
	f()
}

// WaitGroup with durable blocking.
type WaitGroup struct {
	g       sync.Mutex
	n       int
	waiters []chan struct{}
}

func (wg *WaitGroup) Add(d int) {
	wg.g.Lock()
	wg.n += d
	if wg.n < 0 {
		wg.g.Unlock()
		panic("sync: negative WaitGroup counter")
	}
	if wg.n == 0 {
		for _, w := range wg.waiters {
			close(w)
		}
		wg.waiters = nil
	}
	wg.g.Unlock()
}

func (wg *WaitGroup) Done() { wg.Add(-1) }

func (wg *WaitGroup) Go(f func()) {
	wg.Add(1)
	Go(callerSite("wg.go ", 2), func() {
		defer wg.Done()
		f()
	})
}

func (wg *WaitGroup) Wait() {
	site := ""
	if cur.Load() != nil {
		site = callerSite("wg.wait ", 2)
		Yield(site)
	}
	wg.g.Lock()
	if wg.n == 0 {
		wg.g.Unlock()
		return
	}
	w := make(chan struct{})
	wg.waiters = append(wg.waiters, w)
	wg.g.Unlock()
	s := cur.Load()
	if s == nil {
		<-w
		return
	}
	t := s.setBlocked("waitgroup " + site)
	select {
	case <-w:
	case <-s.abortCh:
		runtime.Goexit()
	}
	if t != nil {
		t.blocked = ""
	}
	YieldMust(site + " (done)")
}

// Pool stands in for sync.Pool in instrumented code. A sync.Pool is process-global state that
// outlives a simulated run and is emptied by the garbage collector at arbitrary moments: with
// it one seed would not be one execution. This one is a plain LIFO free list that belongs to
// the run (it is emptied when another scheduler is installed), so "an object put back by an
// earlier connection of this process is handed out again" happens - deterministically -
// within a run and never between runs.
type Pool struct {
	New func() any

	mu    sync.Mutex
	owner *Sched
	free  []any
	real  sync.Pool
}

func (p *Pool) Get() any {
	s := cur.Load()
	if s == nil {
		if v := p.real.Get(); v != nil {
			return v
		}
		if p.New != nil {
			return p.New()
		}
		return nil
	}
	p.mu.Lock()
	if p.owner != s {
		p.owner, p.free = s, nil
	}
	var v any
	if n := len(p.free); n > 0 {
		v, p.free = p.free[n-1], p.free[:n-1]
	}
	p.mu.Unlock()
	if v == nil && p.New != nil {
		v = p.New()
	}
	return v
}

func (p *Pool) Put(v any) {
	if v == nil {
		return
	}
	s := cur.Load()
	if s == nil {
		p.real.Put(v)
		return
	}
	p.mu.Lock()
	if p.owner != s {
		p.owner, p.free = s, nil
	}
	p.free = append(p.free, v)
	p.mu.Unlock()
}
