// verifctl builds the instrumented harness from the current /repo working tree
// and runs the checks registered in MANIFEST.json.
//
//	verifctl check <id> [--tier quick|thorough]
//	verifctl replay <file>
//	verifctl selftest-determinism <id> [--seeds n]
//
// Exit status: 0 property held on everything explored (KNOWN-FINDING lines
// possible), 1 new violation (VIOLATION line), 2 harness/build trouble.
package main

import (
	"encoding/json"
	"fmt"
	"os"
	"os/exec"
	"path/filepath"
	"runtime"
	"sort"
	"strconv"
	"strings"
	"sync"
	"time"
)

const goBin = "go1.26.8"

// repoDir is the ship-go tree the checks are built from: /repo, or (for my own
// sensitivity experiments on scratch worktrees only) $VERIF_REPO.
var repoDir = func() string {
	if d := os.Getenv("VERIF_REPO"); d != "" {
		return d
	}
	return "/repo"
}()

// verifDir is the directory holding MANIFEST.json: the working directory when
// it has one (background runs work on a snapshot), /verif otherwise.
var verifDir = func() string {
	if wd, err := os.Getwd(); err == nil {
		if _, err := os.Stat(filepath.Join(wd, "MANIFEST.json")); err == nil {
			return wd
		}
	}
	return "/verif"
}()

type RunSpec struct {
	Prop      string `json:"prop"`
	Seed      uint64 `json:"seed"`
	Replay    []int  `json:"replay,omitempty"`
	MaxSteps  int    `json:"max_steps,omitempty"`
	KeepTrace bool   `json:"keep_trace,omitempty"`
	Variant   string `json:"variant,omitempty"`
	Tier      string `json:"tier,omitempty"`
	Stalls    bool   `json:"stalls,omitempty"`
	Feat      int    `json:"feat,omitempty"`
}

type Violation struct {
	Prop      string `json:"prop"`
	Clause    string `json:"clause"`
	Signature string `json:"signature"`
	Detail    string `json:"detail"`
	Step      int    `json:"step"`
}

type RunResult struct {
	Spec       RunSpec        `json:"spec"`
	Outcome    string         `json:"outcome"`
	EndReason  string         `json:"end_reason"`
	Violations []Violation    `json:"violations,omitempty"`
	Tape       []int          `json:"tape,omitempty"`
	Hash       uint64         `json:"hash"`
	Steps      int            `json:"steps"`
	SimTimeMs  int64          `json:"sim_ms"`
	Faults     map[string]int `json:"faults,omitempty"`
	Sample     any            `json:"sample,omitempty"`
	Trace      []string       `json:"trace,omitempty"`
	Panics     []string       `json:"panics,omitempty"`
	Blocked    []string       `json:"blocked,omitempty"`
	HarnessErr string         `json:"harness_err,omitempty"`
	Sites      map[string]int `json:"sites,omitempty"`
}

type Job struct {
	Mode       string   `json:"mode"`
	Prop       string   `json:"prop"`
	Tier       string   `json:"tier"`
	SeedBase   uint64   `json:"seed_base"`
	From       int      `json:"from"`
	Stride     int      `json:"stride"`
	MaxRuns    int      `json:"max_runs"`
	WallS      float64  `json:"wall_s"`
	SelfCheck  int      `json:"selfcheck_every"`
	Known      []string `json:"known"`
	Spec       *RunSpec `json:"spec,omitempty"`
	WantSig    string   `json:"want_sig,omitempty"`
	ShrinkS    float64  `json:"shrink_s,omitempty"`
	Out        string   `json:"out"`
	PerVariant int      `json:"per_variant,omitempty"`
}

type WorkerSummary struct {
	Kind            string         `json:"kind"`
	Runs            int            `json:"runs"`
	Outcomes        map[string]int `json:"outcomes"`
	EndReasons      map[string]int `json:"end_reasons"`
	NonTrivial      int            `json:"nontrivial"`
	Sigs            []uint64       `json:"sigs"`
	Faults          map[string]int `json:"faults"`
	Probes          map[string]int `json:"probes"`
	Choices         int            `json:"choices"`
	Steps           int64          `json:"steps"`
	SimMs           int64          `json:"sim_ms"`
	Preempt         int64          `json:"preemptions"`
	SelfChecks      int            `json:"selfchecks"`
	SelfCheckBad    int            `json:"selfcheck_bad"`
	Known           map[string]int `json:"known"`
	Samples         []any          `json:"samples"`
	WallS           float64        `json:"wall_s"`
	Variants        int            `json:"variants"`
	HarnessErrs     []string       `json:"harness_errs,omitempty"`
	Unfinished      []string       `json:"unfinished,omitempty"`
	AbandonedPanics []string       `json:"abandoned_panics,omitempty"`
}

type KnownFinding struct {
	Property  string `json:"property"`
	Signature string `json:"signature"`
	What      string `json:"what"`
	Replay    string `json:"replay,omitempty"`
}

type KnownFile struct {
	Findings []KnownFinding      `json:"findings"`
	Fixed    []map[string]string `json:"fixed"`
}

func fatal2(format string, a ...any) {
	fmt.Fprintf(os.Stderr, "verifctl: "+format+"\n", a...)
	os.Exit(2)
}

func goEnv() []string {
	env := os.Environ()
	env = append(env, "GOFLAGS=-mod=mod", "GOPROXY=off", "GOSUMDB=off", "GOTOOLCHAIN=local", "CGO_ENABLED=1")
	return env
}

func main() {
	if len(os.Args) < 2 {
		fatal2("usage: verifctl check <id> [--tier quick|thorough] | replay <file>")
	}
	switch os.Args[1] {
	case "check":
		if len(os.Args) < 3 {
			fatal2("check needs a property id")
		}
		tier := os.Getenv("VERIF_TIER")
		for i := 3; i < len(os.Args); i++ {
			if os.Args[i] == "--tier" && i+1 < len(os.Args) {
				tier = os.Args[i+1]
			}
		}
		if tier == "" {
			tier = "quick"
		}
		os.Exit(check(os.Args[2], tier))
	case "replay":
		if len(os.Args) < 3 {
			fatal2("replay needs a file")
		}
		os.Exit(replay(os.Args[2]))
	case "selfcheck":
		// diagnosis: one run spec (JSON file with {"property":..,"spec":{..}}) executed in
		// search mode and replayed from its own tape; prints the first difference
		if len(os.Args) < 3 {
			fatal2("selfcheck needs a file")
		}
		os.Exit(selfcheck(os.Args[2]))
	case "determinism":
		if len(os.Args) < 3 {
			fatal2("determinism needs a property id")
		}
		os.Exit(determinism(os.Args[2]))
	default:
		fatal2("unknown command %q", os.Args[1])
	}
}

func seedFromEnv() uint64 {
	if v := os.Getenv("VERIF_SEED"); v != "" {
		n, err := strconv.ParseInt(v, 10, 64)
		if err == nil {
			return uint64(n)
		}
	}
	return 1
}

// build instruments the current tree and builds the harness binary.
func build(scratch string, race bool) string {
	simgen := filepath.Join(verifDir, "bin", "simgen")
	if _, err := os.Stat(simgen); err != nil {
		cmd := exec.Command(goBin, "build", "-o", simgen, "./cmd/simgen")
		cmd.Dir = verifDir
		cmd.Env = goEnv()
		if out, err := cmd.CombinedOutput(); err != nil {
			fatal2("building simgen failed: %v\n%s", err, out)
		}
	}
	cmd := exec.Command(simgen, "-repo", repoDir, "-out", scratch, "-overlay", filepath.Join(verifDir, "overlay"))
	cmd.Env = goEnv()
	if out, err := cmd.CombinedOutput(); err != nil {
		fatal2("instrumenting %s failed: %v\n%s", repoDir, err, out)
	}
	bin := filepath.Join(scratch, "harness.test")
	args := []string{"test", "-c", "-tags", "verif", "-overlay", filepath.Join(scratch, "overlay.json"), "-o", bin}
	{
		// the build's own module file: the replace directive of ship-go points at the
		// tree under test, plus the patched copies of dependencies simgen produced
		mod, err := os.ReadFile(filepath.Join(verifDir, "go.mod"))
		if err != nil {
			fatal2("%v", err)
		}
		sum, _ := os.ReadFile(filepath.Join(verifDir, "go.sum"))
		alt := strings.Replace(string(mod), "=> /repo", "=> "+repoDir, 1)
		if extra, err := os.ReadFile(filepath.Join(scratch, "replaces.txt")); err == nil {
			for _, l := range strings.Split(strings.TrimSpace(string(extra)), "\n") {
				if l != "" {
					alt += "\nreplace " + l + "\n"
				}
			}
		}
		_ = os.WriteFile(filepath.Join(scratch, "go.mod"), []byte(alt), 0o644)
		_ = os.WriteFile(filepath.Join(scratch, "go.sum"), sum, 0o644)
		args = append(args, "-modfile", filepath.Join(scratch, "go.mod"))
	}
	if race {
		args = append(args, "-race")
	}
	args = append(args, "./harness")
	cmd = exec.Command(goBin, args...)
	cmd.Dir = verifDir
	cmd.Env = goEnv()
	if out, err := cmd.CombinedOutput(); err != nil {
		fatal2("building the harness against the instrumented tree failed: %v\n%s", err, out)
	}
	return bin
}

func runWorker(bin string, job Job, scratch string, name string, timeout time.Duration) ([]map[string]json.RawMessage, string, error) {
	return runWorkerEnv(bin, job, scratch, name, timeout, "GOMAXPROCS=2")
}

func runWorkerEnv(bin string, job Job, scratch string, name string, timeout time.Duration, extraEnv string) ([]map[string]json.RawMessage, string, error) {
	job.Out = filepath.Join(scratch, name+".out.jsonl")
	jf := filepath.Join(scratch, name+".job.json")
	b, _ := json.Marshal(job)
	if err := os.WriteFile(jf, b, 0o644); err != nil {
		return nil, "", err
	}
	cmd := exec.Command(bin, "-test.run", "^TestWorker$", "-test.timeout", "0")
	cmd.Env = append(os.Environ(), "VERIF_JOB="+jf, extraEnv, "GODEBUG=randseednop=0", "GORACE=halt_on_error=0 log_path="+filepath.Join(scratch, name+".race"))
	cmd.Dir = scratch
	done := make(chan struct{})
	var out []byte
	var err error
	go func() {
		out, err = cmd.CombinedOutput()
		close(done)
	}()
	select {
	case <-done:
	case <-time.After(timeout):
		if cmd.Process != nil {
			_ = cmd.Process.Signal(os.Interrupt)
			time.Sleep(2 * time.Second)
			_ = cmd.Process.Kill()
		}
		<-done
		return nil, string(out), fmt.Errorf("worker %s exceeded its watchdog of %v", name, timeout)
	}
	var lines []map[string]json.RawMessage
	raw, rerr := os.ReadFile(job.Out)
	if rerr == nil {
		for _, l := range strings.Split(string(raw), "\n") {
			if strings.TrimSpace(l) == "" {
				continue
			}
			var m map[string]json.RawMessage
			if json.Unmarshal([]byte(l), &m) == nil {
				lines = append(lines, m)
			}
		}
	}
	if err != nil {
		return lines, string(out), fmt.Errorf("worker %s failed: %v", name, err)
	}
	return lines, string(out), nil
}

func loadKnown() KnownFile {
	var kf KnownFile
	raw, err := os.ReadFile(filepath.Join(verifDir, "known_findings.json"))
	if err == nil {
		_ = json.Unmarshal(raw, &kf)
	}
	return kf
}

func kind(m map[string]json.RawMessage) string {
	var k string
	_ = json.Unmarshal(m["kind"], &k)
	return k
}

func check(prop, tier string) int {
	meta, ok := props[prop]
	if !ok {
		fatal2("no check for property %s", prop)
	}
	start := time.Now()
	seed := seedFromEnv()
	scratch, err := os.MkdirTemp("", "verif-"+prop+"-")
	if err != nil {
		fatal2("mktemp: %v", err)
	}
	defer os.RemoveAll(scratch)
	bin := build(scratch, meta.Race)

	kf := loadKnown()
	var knownSigs []string
	var knownHere []KnownFinding
	for _, f := range kf.Findings {
		if f.Property == prop {
			knownSigs = append(knownSigs, f.Signature)
			knownHere = append(knownHere, f)
		}
	}

	// regression tapes: minimised replays of everything ever found
	var regressViol []RunResult
	regressRuns := 0
	if files, _ := filepath.Glob(filepath.Join(verifDir, "regress", prop, "*.json")); len(files) > 0 {
		for _, f := range files {
			raw, err := os.ReadFile(f)
			if err != nil {
				continue
			}
			var rf ReplayFile
			if json.Unmarshal(raw, &rf) != nil {
				continue
			}
			spec := rf.Spec
			if spec.Replay == nil {
				spec.Replay = []int{}
			}
			res, err := replaySpec(bin, scratch, spec)
			if err != nil {
				fmt.Fprintf(os.Stderr, "verifctl: regression replay %s failed: %v\n", f, err)
				return 2
			}
			regressRuns++
			if res.Outcome == "violation" {
				known := false
				for _, k := range knownSigs {
					if k == res.Violations[0].Signature {
						known = true
					}
				}
				if !known {
					regressViol = append(regressViol, res)
				}
			}
		}
	}

	workers := meta.QuickWorkers
	wall := meta.QuickS
	selfEvery := 20
	perVariant := meta.QuickSeeds
	if tier == "thorough" {
		perVariant = meta.ThoroughSeeds
		workers = runtime.NumCPU() - 2
		if workers < 2 {
			workers = 2
		}
		wall = meta.ThoroughS
		selfEvery = 50
	}
	if workers == 0 {
		workers = 6
	}
	if meta.Race {
		selfEvery = 0 // parallel-round mode does not replay exactly
	}
	var mu sync.Mutex
	var sums []WorkerSummary
	var viols []RunResult
	var knownRuns []RunResult
	var knownHits = map[string]int{}
	var nondet []string
	var trouble []string
	var mapCrashes []string
	workerRetries := 0
	var wg sync.WaitGroup
	for w := 0; w < workers; w++ {
		wg.Add(1)
		go func(w int) {
			defer wg.Done()
			job := Job{Mode: "search", Prop: prop, Tier: tier, SeedBase: seed, From: w, Stride: workers, WallS: wall, SelfCheck: selfEvery, Known: knownSigs, PerVariant: perVariant}
			lines, out, err := runWorker(bin, job, scratch, fmt.Sprintf("w%d", w), time.Duration(wall*6+120)*time.Second)
			mapCrash := false
			if meta.Race && err != nil && !hasSummary(lines) {
				crash := filepath.Join(verifDir, "replays", fmt.Sprintf("crash-%s-w%d-first.txt", prop, w))
				_ = os.MkdirAll(filepath.Dir(crash), 0o755)
				_ = os.WriteFile(crash, []byte(out), 0o644)
				if strings.Contains(out, "fatal error: concurrent map") {
					// the Go runtime caught what the property forbids by name
					mu.Lock()
					mapCrashes = append(mapCrashes, crash)
					mu.Unlock()
					mapCrash = true
				} else {
					// a worker process that dies under the race detector (seen once in some
					// 30 thorough batches: a fault inside the detector's own runtime, no Go
					// panic, no report) is run again once; a second death is harness trouble
					mu.Lock()
					workerRetries++
					mu.Unlock()
					fmt.Fprintf(os.Stderr, "verifctl: worker w%d died (%v), output kept in %s; running it again\n", w, err, crash)
					lines, out, err = runWorker(bin, job, scratch, fmt.Sprintf("w%d-retry", w), time.Duration(wall*6+120)*time.Second)
				}
			}
			mu.Lock()
			defer mu.Unlock()
			gotSummary := false
			for _, m := range lines {
				if kind(m) == "summary" {
					gotSummary = true
				}
			}
			if err != nil && !(meta.Race && gotSummary) && !mapCrash {
				// (under -race a worker that saw a race report exits 1 after finishing its runs)
				// keep the whole output: the reason of a crash is at its beginning
				crash := filepath.Join(verifDir, "replays", fmt.Sprintf("crash-%s-w%d.txt", prop, w))
				_ = os.MkdirAll(filepath.Dir(crash), 0o755)
				_ = os.WriteFile(crash, []byte(out), 0o644)
				trouble = append(trouble, err.Error()+" (full output: "+crash+")\n"+head(out, 40)+"\n...\n"+tail(out, 30))
			}
			gotSummary = false
			for _, m := range lines {
				switch kind(m) {
				case "summary":
					var s WorkerSummary
					raw, _ := json.Marshal(m)
					_ = json.Unmarshal(raw, &s)
					sums = append(sums, s)
					gotSummary = true
				case "violation":
					var r RunResult
					_ = json.Unmarshal(m["result"], &r)
					viols = append(viols, r)
				case "known":
					var r RunResult
					_ = json.Unmarshal(m["result"], &r)
					knownRuns = append(knownRuns, r)
				case "nondeterminism":
					raw, _ := json.Marshal(m)
					nondet = append(nondet, string(raw))
				}
			}
			if !gotSummary && err == nil && !mapCrash {
				trouble = append(trouble, fmt.Sprintf("worker %d wrote no summary\n%s", w, tail(out, 60)))
			}
		}(w)
	}
	wg.Wait()

	// aggregate
	agg := WorkerSummary{Outcomes: map[string]int{}, EndReasons: map[string]int{}, Faults: map[string]int{}, Probes: map[string]int{}, Known: map[string]int{}}
	sigset := map[uint64]bool{}
	for _, s := range sums {
		agg.Runs += s.Runs
		agg.NonTrivial += s.NonTrivial
		agg.Choices += s.Choices
		agg.Steps += s.Steps
		agg.SimMs += s.SimMs
		agg.Preempt += s.Preempt
		agg.SelfChecks += s.SelfChecks
		agg.SelfCheckBad += s.SelfCheckBad
		if s.Variants > agg.Variants {
			agg.Variants = s.Variants
		}
		for k, v := range s.Outcomes {
			agg.Outcomes[k] += v
		}
		for k, v := range s.EndReasons {
			agg.EndReasons[k] += v
		}
		for k, v := range s.Faults {
			agg.Faults[k] += v
		}
		for k, v := range s.Probes {
			agg.Probes[k] += v
		}
		for k, v := range s.Known {
			agg.Known[k] += v
			knownHits[k] += v
		}
		for _, h := range s.Sigs {
			sigset[h] = true
		}
		agg.Sigs = append(agg.Sigs, s.Sigs...)
		if len(agg.Samples) < 3 {
			agg.Samples = append(agg.Samples, s.Samples...)
		}
		agg.HarnessErrs = append(agg.HarnessErrs, s.HarnessErrs...)
		agg.Unfinished = append(agg.Unfinished, s.Unfinished...)
		agg.AbandonedPanics = append(agg.AbandonedPanics, s.AbandonedPanics...)
	}
	if len(agg.Samples) > 3 {
		agg.Samples = agg.Samples[:3]
	}

	if len(trouble) > 0 {
		fmt.Fprintf(os.Stderr, "verifctl: harness trouble in %s:\n%s\n", prop, strings.Join(trouble, "\n---\n"))
		return 2
	}
	if agg.SelfCheckBad > 0 || len(nondet) > 0 {
		fmt.Fprintf(os.Stderr, "verifctl: NONDETERMINISM detected by the in-batch re-execution (%d of %d); this is a harness defect, not a violation\n%s\n", agg.SelfCheckBad, agg.SelfChecks, strings.Join(nondet, "\n"))
		return 2
	}
	if n := agg.Outcomes["abandoned"]; n > 0 {
		fmt.Fprintf(os.Stderr, "verifctl: %d run(s) abandoned because of harness errors:\n%s\n", n, strings.Join(agg.HarnessErrs, "\n"))
		return 2
	}
	if agg.Runs == 0 {
		fmt.Fprintf(os.Stderr, "verifctl: no run was executed\n")
		return 2
	}

	if meta.Race {
		agg.Probes["worker_processes_run_again_after_dying"] = workerRetries
		rc := finishRace(prop, tier, seed, meta, agg, scratch, kf, knownHere, start, workers)
		for _, c := range mapCrashes {
			fmt.Printf("violation: runtime-crash:concurrent-map-access (the Go runtime ended the process: see the file)\n")
			fmt.Printf("VIOLATION property=%s replay=%s\n", prop, c)
			rc = 1
		}
		return rc
	}
	viols = append(regressViol, viols...)
	agg.Probes["regression_tapes_replayed"] = regressRuns
	// distinct new violations
	exit := 0
	seen := map[string]bool{}
	var violLines []string
	sort.Slice(viols, func(i, j int) bool { return len(viols[i].Tape) < len(viols[j].Tape) })
	nNew := 0
	for _, v := range viols {
		sig := v.Violations[0].Signature
		if seen[sig] {
			continue
		}
		seen[sig] = true
		nNew++
		if nNew > 3 {
			fmt.Printf("violation (not minimised, seed %d variant %q): %s: %s\n", v.Spec.Seed, v.Spec.Variant, sig, v.Violations[0].Detail)
			continue
		}
		path, ok := minimiseAndStore(bin, scratch, prop, v, tier)
		if !ok {
			sp, _ := json.Marshal(v.Spec)
			if len(sp) > 300 {
				sp = append(sp[:300], "..."...)
			}
			fmt.Fprintf(os.Stderr, "verifctl: a violation of %s (%s) did not reproduce on replay in a fresh process: harness defect (nondeterminism); spec %s\n", prop, sig, sp)
			return 2
		}
		violLines = append(violLines, fmt.Sprintf("VIOLATION property=%s replay=%s", prop, path))
		fmt.Printf("violation: %s: %s\n", sig, v.Violations[0].Detail)
		exit = 1
	}
	if os.Getenv("VERIF_REFRESH_KNOWN") != "" {
		// maintenance (never part of a registered command): re-record the replay file of a
		// known finding from a run of this batch, after harness or library changes have
		// shifted the old tape
		for _, f := range knownHere {
			for _, r := range knownRuns {
				if !moveSigFirst(&r, f.Signature) {
					continue
				}
				if path, ok := minimiseAndStore(bin, scratch, prop, r, tier); ok {
					dst := filepath.Join(verifDir, f.Replay)
					if b, err := os.ReadFile(path); err == nil {
						_ = os.WriteFile(dst, b, 0o644)
						_ = os.Remove(path)
						fmt.Printf("refreshed %s from seed %d\n", dst, r.Spec.Seed)
					}
				}
				break
			}
		}
	}
	for _, f := range knownHere {
		fmt.Printf("KNOWN-FINDING: property=%s %s [signature %s; hit in %d of %d runs]\n", prop, f.What, f.Signature, knownHits[f.Signature], agg.Runs)
	}
	for _, l := range violLines {
		fmt.Println(l)
	}
	if len(agg.AbandonedPanics) > 0 {
		fmt.Printf("NOTE: %d run(s) of %s were abandoned because library code panicked (panics are judged by C08/C12/C19/C20, not here); first:\n%s\n", agg.Outcomes["abandoned-panic"], prop, agg.AbandonedPanics[0])
	}

	wallS := time.Since(start).Seconds()
	writeEvidence(prop, tier, seed, meta, agg, len(sigset), nNew, wallS, workers)
	fmt.Printf("%s %s: %d runs (%d non-trivial, %d distinct behaviours), %d self-checks ok, %d new violation(s), %.1fs\n", prop, tier, agg.Runs, agg.NonTrivial, len(sigset), agg.SelfChecks, nNew, wallS)
	return exit
}

func hasSummary(lines []map[string]json.RawMessage) bool {
	for _, m := range lines {
		if kind(m) == "summary" {
			return true
		}
	}
	return false
}

func head(s string, n int) string {
	lines := strings.Split(s, "\n")
	if len(lines) > n {
		lines = lines[:n]
	}
	return strings.Join(lines, "\n")
}

func tail(s string, n int) string {
	lines := strings.Split(s, "\n")
	if len(lines) > n {
		lines = lines[len(lines)-n:]
	}
	return strings.Join(lines, "\n")
}

type ReplayFile struct {
	Property  string   `json:"property"`
	Signature string   `json:"signature"`
	Clause    string   `json:"clause"`
	Detail    string   `json:"detail"`
	Spec      RunSpec  `json:"spec"`
	FoundTape int      `json:"found_tape_len"`
	ShrunkTo  int      `json:"shrunk_tape_len"`
	Sample    any      `json:"scenario"`
	Faults    any      `json:"faults"`
	Trace     []string `json:"trace_tail"`
	Panics    []string `json:"panics,omitempty"`
	Note      string   `json:"note"`
}

// moveSigFirst: a run may violate several clauses (known findings among them); put the
// one looked for first, report whether it is there at all.
func moveSigFirst(r *RunResult, sig string) bool {
	for i := range r.Violations {
		if r.Violations[i].Signature == sig {
			r.Violations[0], r.Violations[i] = r.Violations[i], r.Violations[0]
			return true
		}
	}
	return false
}

func minimiseAndStore(bin, scratch, prop string, v RunResult, tier string) (string, bool) {
	sig := v.Violations[0].Signature
	spec := v.Spec
	spec.Replay = nil
	budget := 45.0
	if tier == "thorough" {
		budget = 120
	}
	lines, out, err := runWorker(bin, Job{Mode: "shrink", Prop: prop, Spec: &spec, WantSig: sig, ShrinkS: budget}, scratch, "shrink-"+strconv.FormatUint(spec.Seed, 10), time.Duration(budget*3+60)*time.Second)
	tape := v.Tape
	if err == nil {
		for _, m := range lines {
			if kind(m) == "shrunk" {
				var t []int
				if json.Unmarshal(m["tape"], &t) == nil && t != nil {
					tape = t
				}
			}
		}
	} else {
		fmt.Fprintf(os.Stderr, "verifctl: shrinking failed (%v), keeping the original tape\n%s\n", err, tail(out, 20))
	}
	if tape == nil {
		tape = []int{}
	}
	// replay in a fresh process
	rs := v.Spec
	rs.Replay = tape
	rs.KeepTrace = true
	res, err := replaySpec(bin, scratch, rs)
	if err != nil || res.Outcome != "violation" || !moveSigFirst(&res, sig) {
		// fall back to the unshrunk tape
		rs.Replay = v.Tape
		res, err = replaySpec(bin, scratch, rs)
		if err != nil || res.Outcome != "violation" || !moveSigFirst(&res, sig) {
			return "", false
		}
	}
	tr := res.Trace
	if len(tr) > 120 {
		tr = tr[len(tr)-120:]
	}
	rf := ReplayFile{Property: prop, Signature: sig, Clause: res.Violations[0].Clause, Detail: res.Violations[0].Detail, Spec: rs, FoundTape: len(v.Tape), ShrunkTo: len(rs.Replay), Sample: res.Sample, Faults: res.Faults, Trace: tr, Panics: res.Panics,
		Note: "replay with: bin/verifctl replay <this file>; the tape is the complete list of scheduler, fault and workload choices (0 = boring choice)"}
	rs.KeepTrace = false
	rf.Spec = rs
	_ = os.MkdirAll(filepath.Join(verifDir, "replays"), 0o755)
	path := filepath.Join(verifDir, "replays", fmt.Sprintf("%s-%d.json", prop, v.Spec.Seed))
	b, _ := json.MarshalIndent(rf, "", " ")
	if err := os.WriteFile(path, b, 0o644); err != nil {
		fatal2("writing replay file: %v", err)
	}
	return path, true
}

func replaySpec(bin, scratch string, spec RunSpec) (RunResult, error) {
	lines, out, err := runWorker(bin, Job{Mode: "replay", Prop: spec.Prop, Spec: &spec}, scratch, fmt.Sprintf("replay-%d-%d", spec.Seed, time.Now().UnixNano()), 10*time.Minute)
	if err != nil {
		return RunResult{}, fmt.Errorf("%v\n%s", err, tail(out, 30))
	}
	for _, m := range lines {
		if kind(m) == "result" {
			var r RunResult
			if err := json.Unmarshal(m["result"], &r); err != nil {
				return RunResult{}, err
			}
			return r, nil
		}
	}
	return RunResult{}, fmt.Errorf("no result from replay worker\n%s", tail(out, 30))
}

func selfcheck(path string) int {
	raw, err := os.ReadFile(path)
	if err != nil {
		fatal2("%v", err)
	}
	var rf ReplayFile
	if err := json.Unmarshal(raw, &rf); err != nil {
		fatal2("%v", err)
	}
	meta := props[rf.Property]
	scratch, err := os.MkdirTemp("", "verif-selfcheck-")
	if err != nil {
		fatal2("mktemp: %v", err)
	}
	defer os.RemoveAll(scratch)
	bin := build(scratch, meta.Race)
	spec := rf.Spec
	lines, out, err := runWorker(bin, Job{Mode: "selfcheck", Prop: spec.Prop, Spec: &spec}, scratch, "selfcheck", 10*time.Minute)
	if err != nil {
		fatal2("selfcheck failed: %v\n%s", err, tail(out, 30))
	}
	for _, m := range lines {
		if kind(m) == "selfcheck" {
			b, _ := json.MarshalIndent(m, "", " ")
			fmt.Println(string(b))
		}
	}
	return 0
}

func replay(path string) int {
	raw, err := os.ReadFile(path)
	if err != nil {
		fatal2("%v", err)
	}
	var rf ReplayFile
	if err := json.Unmarshal(raw, &rf); err != nil {
		fatal2("%v", err)
	}
	meta := props[rf.Property]
	scratch, err := os.MkdirTemp("", "verif-replay-")
	if err != nil {
		fatal2("mktemp: %v", err)
	}
	defer os.RemoveAll(scratch)
	bin := build(scratch, meta.Race)
	spec := rf.Spec
	spec.KeepTrace = true
	if spec.Replay == nil {
		spec.Replay = []int{}
	}
	res, err := replaySpec(bin, scratch, spec)
	if err != nil {
		fatal2("replay failed: %v", err)
	}
	if os.Getenv("VERIF_TRACE") != "" {
		for _, l := range res.Trace {
			fmt.Println(l)
		}
	}
	for _, p := range res.Panics {
		fmt.Println(p)
	}
	if res.Outcome == "violation" {
		for _, v := range res.Violations {
			fmt.Printf("violation: %s: %s (step %d)\n", v.Signature, v.Detail, v.Step)
		}
		if moveSigFirst(&res, rf.Signature) {
			fmt.Printf("VIOLATION property=%s replay=%s\n", rf.Property, path)
			return 1
		}
		fmt.Printf("replay produced a different violation (%s) than recorded (%s)\n", res.Violations[0].Signature, rf.Signature)
		fmt.Printf("VIOLATION property=%s replay=%s\n", rf.Property, path)
		return 1
	}
	fmt.Printf("replay of %s: outcome %s (%s) - the recorded violation %s does not occur on this tree\n", path, res.Outcome, res.EndReason, rf.Signature)
	return 0
}

// determinism runs the same seeds in several OS processes at GOMAXPROCS 1, 4
// and 16 and compares the event-log hashes (DESIGN.md §8.1).
func determinism(prop string) int {
	meta := props[prop]
	n := 300
	if v := os.Getenv("VERIF_DET_RUNS"); v != "" {
		n, _ = strconv.Atoi(v)
	}
	scratch, err := os.MkdirTemp("", "verif-det-")
	if err != nil {
		fatal2("mktemp: %v", err)
	}
	defer os.RemoveAll(scratch)
	bin := build(scratch, meta.Race)
	procs := []string{"1", "1", "4", "4", "16", "16", "2", "8"}
	type hl struct {
		Idx     int    `json:"idx"`
		Hash    uint64 `json:"hash"`
		Steps   int    `json:"steps"`
		Outcome string `json:"outcome"`
		Err     string `json:"err"`
	}
	results := make([]map[int]hl, len(procs))
	var wg sync.WaitGroup
	for i, p := range procs {
		wg.Add(1)
		go func(i int, p string) {
			defer wg.Done()
			os.Setenv("VERIF_GOMAXPROCS_"+strconv.Itoa(i), p)
			job := Job{Mode: "hashes", Prop: prop, Tier: "quick", SeedBase: seedFromEnv(), From: 0, Stride: 1, MaxRuns: n}
			lines, out, err := runWorkerEnv(bin, job, scratch, "det"+strconv.Itoa(i), time.Hour, "GOMAXPROCS="+p)
			if err != nil {
				fmt.Fprintf(os.Stderr, "%v\n%s\n", err, tail(out, 30))
			}
			results[i] = map[int]hl{}
			for _, m := range lines {
				if kind(m) == "hash" {
					raw, _ := json.Marshal(m)
					var h hl
					_ = json.Unmarshal(raw, &h)
					results[i][h.Idx] = h
				}
			}
		}(i, p)
	}
	wg.Wait()
	bad := 0
	for idx := 0; idx < n; idx++ {
		ref, ok := results[0][idx]
		if !ok {
			fmt.Printf("run %d missing in process 0\n", idx)
			bad++
			continue
		}
		for i := 1; i < len(procs); i++ {
			h, ok := results[i][idx]
			if !ok || h.Hash != ref.Hash || h.Steps != ref.Steps {
				bad++
				fmt.Printf("run %d differs: GOMAXPROCS=%s %v vs GOMAXPROCS=%s %v\n", idx, procs[0], ref, procs[i], h)
				break
			}
		}
		if ref.Err != "" {
			fmt.Printf("run %d harness error: %s\n", idx, ref.Err)
		}
	}
	fmt.Printf("determinism %s: %d runs x %d processes (GOMAXPROCS %v): %d divergent\n", prop, n, len(procs), procs, bad)
	if bad > 0 {
		return 2
	}
	return 0
}

// ---------------------------------------------------------------- C20: race reports

type raceReport struct {
	Signature string
	Funcs     [2]string
	Text      string
	Harness   bool
}

func frameOwner(fn string) string {
	switch {
	case strings.HasPrefix(fn, "github.com/enbility/ship-go/"):
		return "ship-go"
	case strings.HasPrefix(fn, "verif/simrt."):
		// the simulator's replacements of Go primitives (range over a map, channel
		// operations, locks) stand for the statement they replaced: look further out
		return "runtime"
	case strings.HasPrefix(fn, "verif/"):
		return "harness"
	case strings.HasPrefix(fn, "runtime.") || strings.HasPrefix(fn, "sync.") || strings.HasPrefix(fn, "sync/atomic.") || strings.HasPrefix(fn, "internal/") || strings.HasPrefix(fn, "reflect."):
		return "runtime"
	}
	return "other"
}

// parseRaceLogs extracts the data race reports of all workers.
func parseRaceLogs(scratch string) []raceReport {
	files, _ := filepath.Glob(filepath.Join(scratch, "*.race.*"))
	var out []raceReport
	for _, f := range files {
		raw, err := os.ReadFile(f)
		if err != nil {
			continue
		}
		for _, block := range strings.Split(string(raw), "==================") {
			if !strings.Contains(block, "DATA RACE") {
				continue
			}
			var stacks [][]string
			var cur []string
			in := false
			for _, line := range strings.Split(block, "\n") {
				t := strings.TrimSpace(line)
				low := strings.ToLower(t)
				if strings.HasPrefix(low, "write at") || strings.HasPrefix(low, "read at") || strings.HasPrefix(low, "previous write at") || strings.HasPrefix(low, "previous read at") || strings.HasPrefix(low, "atomic") || strings.HasPrefix(low, "previous atomic") {
					if in {
						stacks = append(stacks, cur)
					}
					cur, in = nil, true
					continue
				}
				if t == "" || strings.HasPrefix(t, "Goroutine ") {
					if in {
						stacks = append(stacks, cur)
						cur, in = nil, false
					}
					continue
				}
				if in && !strings.HasPrefix(t, "/") && !strings.Contains(t, ".go:") {
					fn := t
					if i := strings.LastIndex(fn, "("); i > 0 {
						fn = fn[:i]
					}
					cur = append(cur, fn)
				}
			}
			if in {
				stacks = append(stacks, cur)
			}
			if len(stacks) < 2 {
				continue
			}
			var r raceReport
			r.Text = strings.TrimSpace(block)
			ok := true
			viaDep := false
			for i := 0; i < 2; i++ {
				owner, fn := "", ""
				for _, f := range stacks[i] {
					o := frameOwner(f)
					if o == "runtime" {
						continue
					}
					owner, fn = o, f
					break
				}
				if owner == "harness" {
					r.Harness = true
				}
				if owner == "other" {
					// the access is inside a dependency (gorilla/websocket, net/http ...): it is
					// charged to the ship-go function that made the call, if there is one - two
					// ship-go goroutines using a dependency's object without synchronisation
					for _, f := range stacks[i] {
						if frameOwner(f) == "ship-go" {
							owner, fn = "ship-go", f
							viaDep = true
							break
						}
						if frameOwner(f) == "harness" {
							break
						}
					}
				}
				if owner != "ship-go" {
					ok = false
				}
				fn = strings.TrimPrefix(fn, "github.com/enbility/ship-go/")
				for strings.HasSuffix(fn, ".func1") || strings.HasSuffix(fn, ".func2") || strings.HasSuffix(fn, ".func3") {
					fn = fn[:strings.LastIndex(fn, ".")]
				}
				r.Funcs[i] = fn
			}
			if !ok && !r.Harness {
				continue // not a race between two ship-go call sites
			}
			if r.Harness && viaDep {
				// a harness frame further out than a dependency frame does not make it a harness race
			}
			fs := []string{r.Funcs[0], r.Funcs[1]}
			sort.Strings(fs)
			r.Signature = "race:" + fs[0] + "|" + fs[1]
			if viaDep {
				r.Signature = "race-in-dependency:" + fs[0] + "|" + fs[1]
			}
			out = append(out, r)
		}
	}
	return out
}

func finishRace(prop, tier string, seed uint64, meta PropMeta, agg WorkerSummary, scratch string, kf KnownFile, knownHere []KnownFinding, start time.Time, workers int) int {
	reports := parseRaceLogs(scratch)
	known := map[string]bool{}
	for _, f := range knownHere {
		known[f.Signature] = true
	}
	bySig := map[string]raceReport{}
	count := map[string]int{}
	harness := 0
	for _, r := range reports {
		if r.Harness {
			harness++
			if os.Getenv("VERIF_ALL_HARNESS_RACES") != "" {
				fmt.Fprintf(os.Stderr, "HARNESS-RACE %s\n%s\n", r.Signature, tail(r.Text, 400))
			}
			if harness == 1 {
				fmt.Fprintf(os.Stderr, "verifctl: the race detector reported a race with a harness frame innermost (harness defect, not a violation):\n%s\n", r.Text)
			}
			continue
		}
		count[r.Signature]++
		if _, ok := bySig[r.Signature]; !ok {
			bySig[r.Signature] = r
		}
	}
	if harness > 0 {
		return 2
	}
	var sigs []string
	for s := range bySig {
		sigs = append(sigs, s)
	}
	sort.Strings(sigs)
	exit, nNew := 0, 0
	for _, s := range sigs {
		if known[s] {
			agg.Known[s] = count[s]
			continue
		}
		nNew++
		r := bySig[s]
		_ = os.MkdirAll(filepath.Join(verifDir, "replays"), 0o755)
		path := filepath.Join(verifDir, "replays", fmt.Sprintf("%s-%d-%d.json", prop, seed, nNew))
		rf := map[string]any{"property": prop, "signature": s, "clause": "data-race", "detail": "data race between " + r.Funcs[0] + " and " + r.Funcs[1],
			"race_report": strings.Split(r.Text, "\n"), "seed": seed, "tier": tier, "occurrences": count[s],
			"note": "parallel-round mode does not replay exactly; `bin/verifctl replay <this file>` re-runs the same seeds under -race and looks for the same pair of functions"}
		b, _ := json.MarshalIndent(rf, "", " ")
		_ = os.WriteFile(path, b, 0o644)
		fmt.Printf("violation: %s (%d reports)\n", s, count[s])
		fmt.Printf("VIOLATION property=%s replay=%s\n", prop, path)
		exit = 1
	}
	for _, f := range knownHere {
		fmt.Printf("KNOWN-FINDING: property=%s %s [signature %s; %d race report(s) in %d runs]\n", prop, f.What, f.Signature, count[f.Signature], agg.Runs)
	}
	agg.Probes["race_reports_total"] = len(reports)
	agg.Probes["distinct_racing_function_pairs"] = len(sigs)
	wallS := time.Since(start).Seconds()
	// distinct = distinct workload signatures
	writeEvidence(prop, tier, seed, meta, agg, distinctOf(agg), nNew, wallS, workers)
	fmt.Printf("%s %s: %d runs under the race detector, %d parallel rounds, %d race report(s), %d distinct pair(s), %d new, %.1fs\n", prop, tier, agg.Runs, agg.Probes["parallel-rounds"], len(reports), len(sigs), nNew, wallS)
	return exit
}

func distinctOf(agg WorkerSummary) int { return len(agg.Sigs) }
