package main

import (
	"encoding/json"
	"fmt"
	"os"
	"path/filepath"
)

// PropMeta is the static description of one check.
type PropMeta struct {
	Level                     string
	Rule                      string
	Real                      []string
	Stub                      []string
	Assumptions               []string
	QuickS                    float64
	ThoroughS                 float64
	QuickWorkers              int
	Race                      bool
	Exhaustive                string // name of the completely enumerated dimension, if any
	QuickSeeds, ThoroughSeeds int    // seeds per enumerated variant
}

var commonAssumptions = []string{
	"sampled, not exhaustive: a clean batch is evidence over the schedules, faults and workloads drawn from VERIF_SEED, not a proof",
	"sync.Mutex/RWMutex/Once, go statements, channel operations, select, map iteration and math/rand in ship, ws, hub, mdns, api run through semantically equivalent simulator versions inserted at build time (cmd/simgen); everything else in ship-go is unmodified",
	"time model T0: simulated time advances only when no task can run; no goroutine is stalled across a timer interval",
	"gorilla/websocket, net/http, crypto/tls run unmodified; TCP is a reliable FIFO byte stream with the listed faults",
}

var ship1Real = []string{"ship.ShipConnection (one endpoint, either role) incl. its timer goroutines", "model", "EEBUS JSON transform"}
var ship1Stub = []string{"transport below SHIP (stub writer: records frames, can fail the k-th write)", "info provider / hub (stub: trust configuration, records callbacks)", "peer (scripted from literal SHIP 1.0.1 frames: cooperative replies + deviant alphabet)", "user (approve / cancel / close / revoke task)"}

var hubReal = []string{"hub.Hub (2-3 instances)", "ship.ShipConnection", "ws.WebsocketConnection", "gorilla/websocket (Dialer + Upgrader)", "net/http server (ServeTLS, hijack)", "crypto/tls (both sides, SHIP cipher suites, client certificates)", "cert.CreateCertificate / SkiFromCertificate", "mdns.MdnsManager"}
var hubStub = []string{"TCP (simnet: listeners, dial, latency, reset, half-open)", "mDNS medium (ether provider behind the manager's zeroconf seam: delayed / lost announcements)", "applications (HubReaderInterface recorder)", "user operations (harness tasks)"}

var props = map[string]PropMeta{
	"C18": {
		Level: "exploration",
		Rule: "one run = two real hubs, one handshake scenario from {success, remote denial, SHIP-id mismatch, reset after the n-th delivered chunk (n drawn 1..25), pending, pending then approve, pending then cancel, success then disconnect / unregister} x latency 0..600 ms x seeded scheduling of the individually delayed notification goroutines and everything else; at two stable points (20 quiet simulated s): last ServicePairingDetailUpdate per (hub, SKI) == PairingDetailForSki, and no delayed notification carries a state produced before one already delivered (production order observed by a build-time probe on ServiceDetails.SetConnectionStateDetail); " +
			"non-trivial = a stable point with at least one notification was evaluated; distinct = distinct (scenario, latency, states at the stable points) tuples",
		Real: hubReal, Stub: hubStub,
		QuickS: 30, ThoroughS: 480, QuickWorkers: 8,
	},
	"C10": {
		Level: "exploration",
		Rule: "one run = 2-3 real hubs, each with a drawn sequence of up to 10 user operations from {register, unregister, cancel pairing, disconnect, auto-accept on/off, hide / re-show a service on mDNS} with gaps 0..40 s and optionally Shutdown last; mDNS propagation 0..0.9 s, latency 0..500 ms, dial back-off drawn per attempt so delayed attempts are pending when intent changes x seeded interleaving; history oracle over (operation invoke/return, dial, setup, close) sequence numbers: every dial X->Y is covered by a Register(Y) with no returned Unregister/Cancel/Shutdown in between (ties at the instant of the return tolerated), unregister => untrusted at once, its connection reported closed within 2 s, no setup while unregistered with auto-accept off, cancel of a pending request => never completes; " +
			"non-trivial = at least one dial and one unregister/shutdown; distinct = distinct operation plans",
		Real: hubReal, Stub: hubStub,
		QuickS: 40, ThoroughS: 600, QuickWorkers: 8,
	},
	"C15": {
		Level: "exploration",
		Rule: "metamorphic twin runs: one scenario on two real hubs - initial situation {completed connection, pending request, no connection} then 1-3 operations from {unregister, disconnect, cancel pairing, pairing detail, service lookup, register} - is executed twice with the very same choice tape: once passing canonical SKIs, once passing re-formatted ones (upper/mixed case, spaces, dashes; spellings drawn from a PRNG separate from the tape) to every hub call; the two observation logs (application callbacks, dials, close reports, PairingDetailForSki, ServiceForSKI().Trusted(), registry after every operation and at the end, with times) must be identical after mapping SKIs to node names; " +
			"non-trivial = all twin runs; distinct = distinct (situation, operation sequence) tuples",
		Real: hubReal, Stub: hubStub,
		QuickS: 30, ThoroughS: 420, QuickWorkers: 8,
	},
	"C02": {
		Level: "exploration",
		Rule: "one run = a real hub A, an honest victim device V (real certificate from the library's generator) and an adversary E on the simulated network; inbound: E connects to A as TLS/websocket client with a generated certificate whose SubjectKeyId is {correct SHA-1 of its key, copied from V's certificate onto a fresh key, absent, length 1/19/21/40, random 20 bytes, absent on the leaf but present on a second chain certificate, copied from V plus a second, valid chain certificate}, arbitrary subject strings, TLS max version 1.0..1.3, with/without client certificate, sub-protocol offers {ship, none, foo, foo+ship, SHIP}, optionally slower than the 10 s header timeout; outbound: A has registered V, a forged mDNS record places V's SKI at E's address, E presents each certificate variant as server; a refused E dials up to twice more, resuming the TLS session of its first attempt; E then tries to get a SHIP message processed / records every binary frame it receives; oracle: a SHIP frame or an application callback naming the presented SKI implies the leaf SKI is the 20-byte SHA-1 of the presented key, TLS >= 1.2, 'ship' negotiated and (outbound) presented == dialled; " +
			"non-trivial = all runs; distinct = distinct (direction, SKI mode, TLS version, client cert, sub-protocols) tuples",
		Real: hubReal, Stub: append(append([]string{}, hubStub...), "adversary (real crypto/tls + gorilla client/server driven by the harness with generated certificates)"),
		QuickS: 30, ThoroughS: 420, QuickWorkers: 8,
	},
	"C17": {
		Level: "exploration",
		Rule: "one run = a real MdnsManager behind a real hub and application; 1-20 resolver events over 1-4 services x 0-3 addresses drawn from {IPv4, IPv6 global, IPv6 link-local, duplicates}: add / add again / add with new addresses / remove (with the TXT of the add) / remove of an unknown service / invalid record (missing mandatory key, txtvers != 1, non-boolean register) / own SKI, back-to-back or 0..300 ms apart x seeded scheduling of the per-change report goroutines; oracle: after every resolver callback the manager's entries equal a reference set model (services, per service the union of usable addresses, no duplicates, no link-local); 30 quiet s later the last VisibleRemoteServicesUpdated list equals the model's final set (SKI, identifier, brand, model, type, serial, categories); " +
			"non-trivial = all completed runs; distinct = distinct event histories",
		Real:   []string{"mdns.MdnsManager (entry processing, snapshot reports)", "hub.Hub.ReportMdnsEntries", "api.MdnsEntry / RemoteService"},
		Stub:   []string{"mDNS provider (the harness calls the resolver callback from one task, as both real providers do)", "application (records VisibleRemoteServicesUpdated)"},
		QuickS: 25, ThoroughS: 360, QuickWorkers: 6,
	},
	"C19": {
		Level: "exploration",
		Rule: "one run = the real AvahiProvider below a real MdnsManager, on a fake Avahi daemon that mirrors go-avahi's locking (signal goroutine dispatching under the server mutex, blocking channel sends, disconnect callback on its own goroutine); up to 20 events from {daemon disconnect, daemon unavailable for 1-3 connection attempts, available again, auto-accept flip (= new TXT), unannounce, announce, browse result add/remove, resolve failures on/off, pauses} with gaps 0..3 s, optionally Shutdown (and a second Shutdown) at a drawn position x seeded interleaving of API task, reconnect loop, listener and signal goroutines; 12 quiet s after the daemon is reachable again: exactly one live browser and (iff an announcement was last requested) one committed entry group with the most recently requested TXT, a service resolved afterwards reaches the report callback; after Shutdown returned: no daemon call at all, nothing live; Shutdown returns within 5 simulated s and nothing panics or deadlocks; " +
			"non-trivial = completed runs; distinct = distinct event sequences",
		Real:   []string{"mdns.AvahiProvider (start, shutdown, announce, reconnect loop, listener)", "mdns.MdnsManager"},
		Stub:   []string{"Avahi daemon + D-Bus (fake implementing go-avahi's ServerInterface)", "report callback (recorder)"},
		QuickS: 25, ThoroughS: 420, QuickWorkers: 6,
	},
	"C20": {
		Level: "exploration",
		Rule: "the hub / mDNS / Avahi workloads of C05, C10, C11, C17, C18, C19 (2-3 real hubs with application tasks issuing API calls while connections are accepted, dialled, handshaking, exchanging data and closing, mDNS reports arriving, timers firing) built with -race and run in parallel-round mode: with probability 0.35 a scheduler step releases a random subset of the parked tasks at once and each released task passes through up to 40 optional yield points before it parks again, so that their steps are concurrent for the Go race detector; oracle: a detector report whose two accesses both have a ship-go function as innermost non-runtime frame; signature = the unordered pair of those functions; " +
			"non-trivial = all runs; distinct = distinct workload signatures",
		Real: hubReal, Stub: hubStub,
		Assumptions: []string{"the race detector is happens-before based with bounded shadow memory: a clean batch is evidence for the rounds sampled only", "parallel-round mode gives up exact replay; a replay re-runs the seeds and looks for the same pair of racing functions"},
		QuickS:      40, ThoroughS: 600, QuickWorkers: 8, Race: true,
	},
	"C05": {
		Level: "exploration",
		Rule: "one run = two real hubs (optionally a third bystander) with generated certificates on the simulated network and mDNS medium: registration before/after Start, start skew 0..30 s, network latency 0..900 ms (optionally asymmetric), mDNS propagation 0..6 s, the dial back-off drawn per attempt (minimum / maximum / any), optionally a transport reset after the k-th delivered segment of the n-th connection (inside the handshake), then 0-4 disturbances from {DisconnectSKI by either side, unsafe close, reset of all connections, half-open link, mDNS outage, orderly restart of B (Shutdown + new hub, same certificate), crash of A or B (tasks frozen, sockets reset, no mDNS goodbye) or power loss of B (sockets silent) followed 0..200 s later by a new instance} at drawn times, then 300 quiet simulated seconds x seeded interleaving of all hub, ship, ws, http and harness tasks; oracle: exactly one transport connection open at both ends, registered on both sides, completed on both sides, a fresh payload crosses in each direction; " +
			"non-trivial = converged run; distinct = distinct (latency, mDNS delay, registration order, disturbance sequence) tuples",
		Real: hubReal, Stub: hubStub,
		QuickS: 40, ThoroughS: 600, QuickWorkers: 8,
	},
	"C08": {
		Level: "exploration",
		Rule: "three engines per draw: (ship) up to 40 peer events with 50% deviant frames of 12 mutation classes delivered in whatever handshake state the valid prefix reached, both roles, all trust configurations; (ws) up to 12 websocket frames of every opcode and length 0..70000, fragmented, close codes, raw invalid framing, SHIP frames that provoke replies, optionally with a peer that never reads; (mdns) up to 10 resolver callbacks with mutated TXT maps, nil/odd address lists, ports -1..70000, adds and removes; each x seeded schedules; " +
			"non-trivial = all runs (every run delivers peer-controlled input); distinct = distinct sets of (state at delivery, input class) / frame classes",
		Real:   []string{"ship.ShipConnection", "ws.WebsocketConnection + gorilla/websocket (ws engine)", "mdns.MdnsManager entry processing (mdns engine)"},
		Stub:   []string{"transport stub (ship engine) / simnet.Conn (ws engine)", "info provider", "scripted peer", "mDNS provider (null provider handing out the resolver callback)"},
		QuickS: 25, ThoroughS: 480, QuickWorkers: 6,
	},
	"C04": {
		Level: "fault_enumeration",
		Rule: "histories as in C01 (role x trust x user plan incl. local close x up to 32 peer events, 10% deviant) combined with one injected transport write failure: variant a<k> = the k-th write fails and the transport reports closed afterwards (what ws does), b<k> = only the k-th write fails (what the interface permits); k enumerated 1..W+2 where W = writes of a fault-free handshake; oracle = reference SHIP state graph (written from the specification), phase order, terminal-is-final, transport closed, no activity in a 6 minute input-free period after a terminal outcome; " +
			"non-trivial = the injected failure fired (or fault-free variant); distinct = distinct (variant, configuration, set of (state, input class)) tuples",
		Real: ship1Real, Stub: ship1Stub,
		QuickS: 25, ThoroughS: 420, QuickWorkers: 6, QuickSeeds: 2500, ThoroughSeeds: 60000,
		Exhaustive: "index k of the single failing transport write (both failure semantics), k = 1..W+2",
	},
	"C14": {
		Level: "exploration",
		Rule: "(a) 1-50 concurrent connections parked in client-wait (a timeout there is an observable error report), each driven through up to 8 ops from {arm(1ms..60s), stop, sleep(0..30s)} via overlay wrappers around the unexported timer methods, the timer goroutine's start and select being schedule points; oracle: every delivered timeout is the newest, un-stopped timer's, at exactly its expiry (ties at the expiry instant tolerated); (b) a pending-trust handshake with a peer that answers every message and prolongation request at once, user approval after arbitrary simulated delays: no terminal state or close ever; " +
			"non-trivial = a stop was issued (a) / pending-listen with prolongation reached (b); distinct = distinct (mode, connections, configuration, input sets)",
		Real: ship1Real, Stub: ship1Stub,
		QuickS: 20, ThoroughS: 420, QuickWorkers: 6,
	},
	"C09": {
		Level: "exploration",
		Rule: "one run = role x stored SHIP ID (none / equal / other / near misses / quotes and braces / long) x presented id (11 variants: equal, other, empty, prefix, trailing blank, quotes, missing, null, number, object, other member only) x order of the access-methods exchange (normal, reply first, reply twice, reply before the access phase, request+reply in one frame, no request) x trust x low-rate deviant frames and clock advances x seeded schedule; in 4% of the runs (50x the cost) two real hubs instead: hub A has stored {nothing, the right id, another id, near misses} for B, the connection is made by A, by B or by both (A in client or server role), oracle over public callbacks only; " +
			"non-trivial = an access-methods reply was evaluated in the access-methods state; distinct = distinct (stored, presented, order, role, outcome, input set) tuples",
		Real: ship1Real, Stub: ship1Stub,
		QuickS: 20, ThoroughS: 360, QuickWorkers: 6,
	},
	"C11": {
		Level: "exploration",
		Rule: "SHIP level: one real connection (either role, any handshake progress up to completed) hit by 1-3 coinciding close causes drawn from {local CloseConnection safe/unsafe, peer close announce / unsolicited confirm, transport error reported by the read pump and/or concurrently by the write pump, handshake error, user abort, injected deviant frames} under seeded interleavings of pump, user, write-pump and timer tasks; HUB level (half of the runs): two real hubs, 1-4 causes from {DisconnectSKI by either side, UnregisterRemoteSKI, re-register, unsafe close, reset, half-open, Shutdown} with gaps 0..25 s (0 = coinciding), double connections and immediate reconnects included; oracle: at most/exactly one HandleConnectionClosed per connection object (build-time probe), no dead connection registered, per SKI the last of {SetupRemoteDevice, RemoteSKIDisconnected} is 'set up' iff a completed connection is registered; " +
			"non-trivial = at least two close causes present in the run; distinct = distinct (cause set, configuration, input set) tuples",
		Real: ship1Real, Stub: ship1Stub,
		QuickS: 20, ThoroughS: 360, QuickWorkers: 6,
	},
	"C03": {
		Level: "exploration",
		Rule: "one run = a client-role and a server-role ShipConnection on real ws + gorilla over a simulated TCP pair x server trust (paired / auto-accept / user approves, cancels or revokes waiting after 0..200 simulated s of pending / waiting not allowed / never answers) x stored SHIP ids per side (unknown, correct, wrong) x mode: timely (fixed latency 0..400 ms, clock advances only when nothing else can happen) or arbitrary (per-chunk latency from {0, 5 ms, 1 s, 9.9 s, 10.1 s, 31 s, 61 s, 130 s}, so any timer may expire with messages in flight) x seeded interleaving of both read pumps, write pumps, timers and the user task; state is judged 20 simulated minutes after the user's decision; " +
			"non-trivial = timely runs, and arbitrary runs that ended or completed; distinct = distinct (mode, trust, ids, delay, outcome A, outcome B) tuples",
		Real:   []string{"ship.ShipConnection x2 (client + server role)", "ws.WebsocketConnection x2", "gorilla/websocket x2 incl. the opening handshake"},
		Stub:   []string{"TCP (simnet.Conn pair with drawn latencies)", "info providers / hub (trust configuration, records callbacks)", "user (approve / cancel / revoke task)"},
		QuickS: 25, ThoroughS: 480, QuickWorkers: 6,
	},
	"C06": {
		Level: "exploration",
		Rule: "(pair) two real endpoints over ws + simulated TCP (latency 0..2.8 s, optional jitter), server trust paired/auto/approved later; each application sends 0-3 datagrams from inside its SetupRemoteDevice callback (i.e. possibly before the peer has completed) and 0-26 later from a sender task, unique ids; optionally the link ends (graceful close by either side, unsafe close, reset) at a drawn moment; (scripted) one real endpoint and a scripted peer that injects datagrams at every handshake position (45% of up to 36 peer events); oracle per direction: delivered sequence = sent sequence (exact if the link stayed open, duplicate-free gap-free prefix otherwise), nothing before SetupRemoteDevice returned / before completion; " +
			"non-trivial = the handshake completed; distinct = distinct (engine, configuration, per-direction delivered/sent counts) tuples",
		Real:   []string{"ship.ShipConnection (x2 in pair mode)", "ws.WebsocketConnection + gorilla/websocket (pair mode)", "EEBUS JSON transform (payloads stay inside the alphabet on which it is faithful; C07 is not claimed)"},
		Stub:   []string{"TCP (simnet)", "info providers", "applications (recording readers, scripted senders)", "scripted peer (scripted mode)"},
		QuickS: 25, ThoroughS: 420, QuickWorkers: 6,
	},
	"C01": {
		Level: "exploration",
		Rule: "one run = role x trust configuration (paired/auto/none, waiting allowed or not) x peer hello mode x user plan (approve/cancel/revoke at a drawn event) x up to 32 peer events drawn from {cooperative next frame, deviant frame of 12 classes, SPINE data, clock advance 1ms..120s, transport error, close announce} x seeded interleaving of pump, user and timer tasks; in 3% of the runs (they cost 100x more) instead: three real hubs, hub A never trusts B (auto-accept off) while B keeps dialling it and A's user registers / unregisters / cancels / disconnects other SKIs and B itself - over public callbacks only: no setup, no payload, no trusted/completed pairing state for B; " +
			"non-trivial = the connection reached pending-listen (a trust decision was actually open); distinct = distinct sets of (state at delivery, input class) plus configuration",
		Real: ship1Real, Stub: ship1Stub,
		QuickS: 20, ThoroughS: 420, QuickWorkers: 6,
	},
	"C13": {
		Level: "fault_enumeration",
		Rule: "a scripted session (5 data frames each way around one ping/pong round) is run fault-free to count the transport reads R and writes W; then one run per variant: k-th read fails (k=1..R+2), k-th write fails (k=1..W+2), peer close frame with each of 7 codes, peer EOF, reset, local close with/without reason - each variant x seeded schedules; " +
			"non-trivial = the fault or remote close actually happened inside the session; distinct = distinct (variant, role, cause) tuples",
		Real:   []string{"ws.WebsocketConnection", "gorilla/websocket (both ends)"},
		Stub:   []string{"transport (simnet.Conn pair with per-call fault index)", "SHIP layer above ws (recorder)", "peer application (scripted)"},
		QuickS: 25, ThoroughS: 300, QuickWorkers: 6, QuickSeeds: 250, ThoroughSeeds: 6000,
		Exhaustive: "index k of the failing transport read / write within the scripted session (every k up to the fault-free count + 2), close codes, close kinds",
	},
	"C12": {
		Level: "exploration",
		Rule: "one run = (role, 1-4 writer tasks x 1-6 writes, closing event of 7 kinds enabled after a drawn number of accepted writes) x one seeded schedule over every lock/channel/select/goroutine-start of ws; " +
			"non-trivial = at least one write was accepted before the closure; distinct = distinct (closing kind, writers, accepted, lost-tail, writer-observed-closed) tuples",
		Real:   []string{"ws.WebsocketConnection", "gorilla/websocket (both ends)"},
		Stub:   []string{"transport (simnet.Conn pair)", "SHIP layer above ws (recorder)", "peer application (scripted gorilla client/server)"},
		QuickS: 20, ThoroughS: 420, QuickWorkers: 6,
	},
}

func writeEvidence(prop, tier string, seed uint64, meta PropMeta, agg WorkerSummary, distinct, newViol int, wallS float64, workers int) {
	cov := map[string]any{
		"evaluations":         agg.Runs,
		"distinct_nontrivial": distinct,
		"nontrivial_runs":     agg.NonTrivial,
		"rule":                meta.Rule,
		"samples":             agg.Samples,
		"runs_per_hour":       int(float64(agg.Runs) / wallS * 3600),
		"seeds":               fmt.Sprintf("VERIF_SEED=%d; run i uses fnv64(VERIF_SEED/property/i)", seed),
		"simulated_time_s":    agg.SimMs / 1000,
		"scheduler_steps":     agg.Steps,
		"choices_drawn":       agg.Choices,
		"preemptions":         agg.Preempt,
		"faults_fired":        agg.Faults,
		"probes_hit":          agg.Probes,
		"outcomes":            agg.Outcomes,
		"end_reasons":         agg.EndReasons,
		"determinism_reruns":  map[string]int{"executed_twice": agg.SelfChecks, "hash_mismatch": agg.SelfCheckBad},
		"known_finding_hits":  agg.Known,
		"workers":             workers,
		"real_components":     meta.Real,
		"stubbed_components":  meta.Stub,
		"distinct_measure":    "distinct behaviour signatures (see rule) among non-trivial runs, unioned over workers",
	}
	if len(agg.Unfinished) > 0 {
		// not judged by the final oracle (the invariants checked during the run were)
		if len(agg.Unfinished) > 8 {
			agg.Unfinished = agg.Unfinished[:8]
		}
		cov["unfinished_runs"] = agg.Unfinished
	}
	if meta.Exhaustive != "" {
		cov["exhaustive"] = true
		cov["exhaustive_dimension"] = meta.Exhaustive
		cov["variants_enumerated"] = agg.Variants
	}
	if len(agg.Samples) == 0 {
		cov["samples"] = []any{"(no sample recorded)"}
	}
	ev := map[string]any{
		"property_id": prop,
		"tier":        tier,
		"seed":        int64(seed),
		"level":       meta.Level,
		"coverage":    cov,
		"assumptions": append(append([]string{}, commonAssumptions...), meta.Assumptions...),
		"wall_s":      wallS,
		"violations":  newViol,
	}
	_ = os.MkdirAll(filepath.Join(verifDir, "evidence"), 0o755)
	b, _ := json.MarshalIndent(ev, "", " ")
	if err := os.WriteFile(filepath.Join(verifDir, "evidence", prop+".json"), b, 0o644); err != nil {
		fatal2("writing evidence: %v", err)
	}
}
