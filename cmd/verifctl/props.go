package main

import (
	"encoding/json"
	"fmt"
	"os"
	"path/filepath"
)

// PropMeta is the static description of one check.
type PropMeta struct {
	Level        string
	Rule         string
	Real         []string
	Stub         []string
	Assumptions  []string
	QuickS       float64
	ThoroughS    float64
	QuickWorkers int
	Race         bool
	Exhaustive   string // name of the completely enumerated dimension, if any
}

var commonAssumptions = []string{
	"sampled, not exhaustive: a clean batch is evidence over the schedules, faults and workloads drawn from VERIF_SEED, not a proof",
	"sync.Mutex/RWMutex/Once, go statements, channel operations, select, map iteration and math/rand in ship, ws, hub, mdns, api run through semantically equivalent simulator versions inserted at build time (cmd/simgen); everything else in ship-go is unmodified",
	"time model T0: simulated time advances only when no task can run; no goroutine is stalled across a timer interval",
	"gorilla/websocket, net/http, crypto/tls run unmodified; TCP is a reliable FIFO byte stream with the listed faults",
}

var props = map[string]PropMeta{
	"C13": {
		Level: "fault_enumeration",
		Rule: "a scripted session (5 data frames each way around one ping/pong round) is run fault-free to count the transport reads R and writes W; then one run per variant: k-th read fails (k=1..R+2), k-th write fails (k=1..W+2), peer close frame with each of 7 codes, peer EOF, reset, local close with/without reason - each variant x seeded schedules; " +
			"non-trivial = the fault or remote close actually happened inside the session; distinct = distinct (variant, role, cause) tuples",
		Real:       []string{"ws.WebsocketConnection", "gorilla/websocket (both ends)"},
		Stub:       []string{"transport (simnet.Conn pair with per-call fault index)", "SHIP layer above ws (recorder)", "peer application (scripted)"},
		QuickS:     25, ThoroughS: 300, QuickWorkers: 6,
		Exhaustive: "index k of the failing transport read / write within the scripted session (every k up to the fault-free count + 2), close codes, close kinds",
	},
	"C12": {
		Level: "exploration",
		Rule: "one run = (role, 1-4 writer tasks x 1-6 writes, closing event of 7 kinds enabled after a drawn number of accepted writes) x one seeded schedule over every lock/channel/select/goroutine-start of ws; " +
			"non-trivial = at least one write was accepted before the closure; distinct = distinct (closing kind, writers, accepted, lost-tail, writer-observed-closed) tuples",
		Real:   []string{"ws.WebsocketConnection", "gorilla/websocket (both ends)"},
		Stub:   []string{"transport (simnet.Conn pair)", "SHIP layer above ws (recorder)", "peer application (scripted gorilla client/server)"},
		QuickS: 20, ThoroughS: 420, QuickWorkers: 6,
	},
}

func writeEvidence(prop, tier string, seed uint64, meta PropMeta, agg WorkerSummary, distinct, newViol int, wallS float64, workers int) {
	cov := map[string]any{
		"evaluations":         agg.Runs,
		"distinct_nontrivial": distinct,
		"nontrivial_runs":     agg.NonTrivial,
		"rule":                meta.Rule,
		"samples":             agg.Samples,
		"runs_per_hour":       int(float64(agg.Runs) / wallS * 3600),
		"seeds":               fmt.Sprintf("VERIF_SEED=%d; run i uses fnv64(VERIF_SEED/property/i)", seed),
		"simulated_time_s":    agg.SimMs / 1000,
		"scheduler_steps":     agg.Steps,
		"choices_drawn":       agg.Choices,
		"preemptions":         agg.Preempt,
		"faults_fired":        agg.Faults,
		"probes_hit":          agg.Probes,
		"outcomes":            agg.Outcomes,
		"end_reasons":         agg.EndReasons,
		"determinism_reruns":  map[string]int{"executed_twice": agg.SelfChecks, "hash_mismatch": agg.SelfCheckBad},
		"known_finding_hits":  agg.Known,
		"workers":             workers,
		"real_components":     meta.Real,
		"stubbed_components":  meta.Stub,
		"distinct_measure":    "distinct behaviour signatures (see rule) among non-trivial runs, unioned over workers",
	}
	if meta.Exhaustive != "" {
		cov["exhaustive"] = true
		cov["exhaustive_dimension"] = meta.Exhaustive
		cov["variants_enumerated"] = agg.Variants
	}
	if len(agg.Samples) == 0 {
		cov["samples"] = []any{"(no sample recorded)"}
	}
	ev := map[string]any{
		"property_id": prop,
		"tier":        tier,
		"seed":        int64(seed),
		"level":       meta.Level,
		"coverage":    cov,
		"assumptions": append(append([]string{}, commonAssumptions...), meta.Assumptions...),
		"wall_s":      wallS,
		"violations":  newViol,
	}
	_ = os.MkdirAll(filepath.Join(verifDir, "evidence"), 0o755)
	b, _ := json.MarshalIndent(ev, "", " ")
	if err := os.WriteFile(filepath.Join(verifDir, "evidence", prop+".json"), b, 0o644); err != nil {
		fatal2("writing evidence: %v", err)
	}
}
