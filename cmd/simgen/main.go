// simgen instruments the current ship-go working tree for the simulator.
//
// It loads the packages with full type information, applies line-preserving
// text splices (see DESIGN.md §3.1) and writes the rewritten files plus a
// `go build -overlay` description into the output directory. /repo itself is
// never modified.
//
// Exit status: 0 ok, 2 anything else (never "violation").
package main

import (
	"encoding/json"
	"flag"
	"fmt"
	"go/ast"
	"go/token"
	"go/types"
	"os"
	"os/exec"
	"path/filepath"
	"sort"
	"strconv"
	"strings"

	"golang.org/x/tools/go/packages"
)

const modPath = "github.com/enbility/ship-go"

var instrumented = []string{"ship", "ws", "hub", "mdns", "api"}

// probes: functions whose calls an oracle must observe (rule R8). A probe is
// `simrt.Probe("<pkg>.<Recv>.<Func>", recv, params...)` as first statement.
var probes = map[string]bool{
	"api.ServiceDetails.SetConnectionStateDetail": true,
	"hub.Hub.HandleConnectionClosed":              true,
	"hub.Hub.HandleShipHandshakeStateUpdate":      true,
	"hub.Hub.initateConnection":                   true,
	"hub.Hub.registerConnection":                  true,
	"mdns.AvahiProvider.Announce":                 true,
	"mdns.AvahiProvider.Unannounce":               true,
	"ship.ShipConnection.setState":                true,
	"ship.ShipConnection.setHandshakeTimer":       true,
	"ship.ShipConnection.handleState":             true,
	"ship.ShipConnection.CloseConnection":         true,
}

type edit struct {
	pos, end int // byte offsets; pos==end is an insertion
	text     string
	ord      int
}

type fileCtx struct {
	fset     *token.FileSet
	file     *ast.File
	tf       *token.File
	src      []byte
	info     *types.Info
	rel      string // e.g. ws/websocket.go
	edits    []edit
	needRT   bool
	needNet  bool
	ord      int
	warnings []string
	counts   map[string]int
	tail     []string
	pkgName  string
}

func (c *fileCtx) off(p token.Pos) int { return c.tf.Offset(p) }
func (c *fileCtx) text(a, b token.Pos) string {
	return string(c.src[c.off(a):c.off(b)])
}
func (c *fileCtx) replace(a, b token.Pos, s string) {
	c.ord++
	c.edits = append(c.edits, edit{c.off(a), c.off(b), s, c.ord})
}
func (c *fileCtx) insert(a token.Pos, s string) { c.replace(a, a, s) }
func (c *fileCtx) site(p token.Pos) string {
	return c.rel + ":" + strconv.Itoa(c.fset.Position(p).Line)
}
func (c *fileCtx) q(p token.Pos) string { return strconv.Quote(c.site(p)) }
func (c *fileCtx) warn(p token.Pos, msg string) {
	c.warnings = append(c.warnings, c.site(p)+": "+msg)
}

func main() {
	repo := flag.String("repo", "/repo", "ship-go working tree")
	out := flag.String("out", "", "output directory (scratch)")
	overlayDir := flag.String("overlay", "/verif/overlay", "directory with additional in-package files")
	flag.Parse()
	if *out == "" {
		fmt.Fprintln(os.Stderr, "simgen: -out required")
		os.Exit(2)
	}
	if err := run(*repo, *out, *overlayDir); err != nil {
		fmt.Fprintln(os.Stderr, "simgen:", err)
		os.Exit(2)
	}
}

func run(repo, out, overlayDir string) error {
	repo, _ = filepath.Abs(repo)
	cfg := &packages.Config{
		Mode: packages.NeedName | packages.NeedFiles | packages.NeedSyntax | packages.NeedTypes | packages.NeedTypesInfo | packages.NeedImports | packages.NeedCompiledGoFiles,
		Dir:  repo,
		Env:  append(os.Environ(), "GOFLAGS=-mod=mod", "GOPROXY=off", "GOSUMDB=off"),
	}
	var pats []string
	for _, p := range instrumented {
		pats = append(pats, modPath+"/"+p)
	}
	pkgs, err := packages.Load(cfg, pats...)
	if err != nil {
		return err
	}
	overlay := map[string]string{}
	summary := map[string]int{}
	var warnings []string
	seams := map[string]int{}
	for _, pkg := range pkgs {
		if len(pkg.Errors) > 0 {
			return fmt.Errorf("package %s does not type-check: %v", pkg.PkgPath, pkg.Errors[0])
		}
		for i, f := range pkg.Syntax {
			path := pkg.CompiledGoFiles[i]
			if strings.HasSuffix(path, "_test.go") {
				continue
			}
			rel, err := filepath.Rel(repo, path)
			if err != nil || strings.HasPrefix(rel, "..") {
				continue
			}
			src, err := os.ReadFile(path)
			if err != nil {
				return err
			}
			c := &fileCtx{fset: pkg.Fset, file: f, tf: pkg.Fset.File(f.Pos()), src: src, info: pkg.TypesInfo, rel: filepath.ToSlash(rel), counts: map[string]int{}, pkgName: pkg.Name}
			c.rewrite()
			res, err := c.apply()
			if err != nil {
				return fmt.Errorf("%s: %v", rel, err)
			}
			for k, v := range c.counts {
				summary[k] += v
				if strings.HasPrefix(k, "seam:") {
					seams[k] += v
				}
			}
			warnings = append(warnings, c.warnings...)
			if len(c.edits) == 0 {
				continue
			}
			dst := filepath.Join(out, "src", rel)
			if err := os.MkdirAll(filepath.Dir(dst), 0o755); err != nil {
				return err
			}
			if err := os.WriteFile(dst, res, 0o644); err != nil {
				return err
			}
			overlay[path] = dst
		}
	}
	// additional in-package files
	for _, p := range instrumented {
		matches, _ := filepath.Glob(filepath.Join(overlayDir, p, "*.go"))
		for _, m := range matches {
			overlay[filepath.Join(repo, p, filepath.Base(m))] = m
		}
	}
	// gorilla/websocket serialises writers with a one-element channel; a task that
	// waits for it must wait under the simulator's control (see simrt.ChanLock)
	if err := patchGorilla(repo, out, overlay); err != nil {
		return fmt.Errorf("gorilla/websocket write lock: %v", err)
	}
	for _, need := range []string{"seam:ListenAndServeTLS", "seam:Dialer", "seam:NewZeroconfProvider", "seam:avahi.ServerNew"} {
		if seams[need] == 0 {
			return fmt.Errorf("required seam pattern %q not found in the tree", need)
		}
	}
	ov, _ := json.MarshalIndent(map[string]any{"Replace": overlay}, "", " ")
	if err := os.WriteFile(filepath.Join(out, "overlay.json"), ov, 0o644); err != nil {
		return err
	}
	sum, _ := json.MarshalIndent(map[string]any{"rewrites": summary, "warnings": warnings}, "", " ")
	if err := os.WriteFile(filepath.Join(out, "simgen.json"), sum, 0o644); err != nil {
		return err
	}
	return nil
}

// patchGorilla puts a copy of gorilla/websocket's conn.go with its two lock
// acquisitions replaced into the overlay. The patterns are exact: another
// version of the dependency fails the build step (exit 2), never silently.
func patchGorilla(repo, out string, overlay map[string]string) error {
	cmd := exec.Command("go", "list", "-m", "-f", "{{.Dir}}", "github.com/gorilla/websocket")
	cmd.Dir = repo
	cmd.Env = append(os.Environ(), "GOFLAGS=-mod=mod", "GOPROXY=off", "GOSUMDB=off")
	b, err := cmd.Output()
	if err != nil {
		return fmt.Errorf("go list: %v", err)
	}
	dir := strings.TrimSpace(string(b))
	path := filepath.Join(dir, "conn.go")
	src, err := os.ReadFile(path)
	if err != nil {
		return err
	}
	s := string(src)
	reps := [][2]string{
		{"\t<-c.mu\n\tdefer func() { c.mu <- struct{}{} }()\n", "\tsimrt.ChanLock(\"gorilla write\", c.mu)\n\tdefer func() { c.mu <- struct{}{} }()\n"},
		{"\tselect {\n\tcase <-c.mu:\n\t\ttimer.Stop()\n\tcase <-timer.C:\n\t\treturn errWriteTimeout\n\t}\n", "\tif !simrt.ChanLockTimer(\"gorilla control\", c.mu, timer) {\n\t\treturn errWriteTimeout\n\t}\n"},
		{"import (\n", "import (\n\t\"verif/simrt\"\n"},
	}
	for _, r := range reps {
		if strings.Count(s, r[0]) < 1 {
			return fmt.Errorf("pattern not found in %s: %q", path, r[0])
		}
		s = strings.Replace(s, r[0], r[1], 1)
	}
	// files beneath GOMODCACHE must not be replaced by an overlay: a patched copy of
	// the module, used through a replace directive of the build's module file
	cp := filepath.Join(out, "gorilla-websocket")
	if err := os.MkdirAll(cp, 0o755); err != nil {
		return err
	}
	ents, err := os.ReadDir(dir)
	if err != nil {
		return err
	}
	for _, e := range ents {
		if e.IsDir() || strings.HasSuffix(e.Name(), "_test.go") {
			continue
		}
		data, err := os.ReadFile(filepath.Join(dir, e.Name()))
		if err != nil {
			return err
		}
		if e.Name() == "conn.go" {
			data = []byte(s)
		}
		if err := os.WriteFile(filepath.Join(cp, e.Name()), data, 0o644); err != nil {
			return err
		}
	}
	return os.WriteFile(filepath.Join(out, "replaces.txt"), []byte("github.com/gorilla/websocket => "+cp+"\n"), 0o644)
}

// ------------------------------------------------------------------ rewrite

func (c *fileCtx) rewrite() {
	// imports
	for _, imp := range c.file.Imports {
		p, _ := strconv.Unquote(imp.Path.Value)
		if p == "sync" {
			if imp.Name == nil {
				c.replace(imp.Path.Pos(), imp.Path.End(), `sync "verif/simrt"`)
			} else {
				c.replace(imp.Path.Pos(), imp.Path.End(), `"verif/simrt"`)
			}
			c.counts["import:sync"]++
		}
	}
	c.walk(c.file, nil)
}

// isPkg reports whether id refers to an imported package with the given path.
func (c *fileCtx) isPkg(e ast.Expr, paths ...string) bool {
	id, ok := e.(*ast.Ident)
	if !ok {
		return false
	}
	pn, ok := c.info.Uses[id].(*types.PkgName)
	if !ok {
		return false
	}
	for _, p := range paths {
		if pn.Imported().Path() == p {
			return true
		}
	}
	return false
}

func pure(e ast.Expr) bool {
	switch x := e.(type) {
	case *ast.Ident:
		return true
	case *ast.SelectorExpr:
		return pure(x.X)
	case *ast.ParenExpr:
		return pure(x.X)
	case *ast.StarExpr:
		return pure(x.X)
	}
	return false
}

type walkCtx struct {
	recvName string // receiver name of enclosing method
	recvType string
}

func (c *fileCtx) walk(n ast.Node, wc *walkCtx) {
	if n == nil {
		return
	}
	switch x := n.(type) {
	case *ast.FuncDecl:
		nwc := &walkCtx{}
		if x.Recv != nil && len(x.Recv.List) == 1 {
			if len(x.Recv.List[0].Names) == 1 {
				nwc.recvName = x.Recv.List[0].Names[0].Name
			}
			t := x.Recv.List[0].Type
			if st, ok := t.(*ast.StarExpr); ok {
				t = st.X
			}
			if id, ok := t.(*ast.Ident); ok {
				nwc.recvType = id.Name
			}
		}
		if x.Body != nil {
			pname := c.pkgName + "." + nwc.recvType + "." + x.Name.Name
			if probes[pname] && nwc.recvName != "" {
				args := []string{nwc.recvName}
				for _, f := range x.Type.Params.List {
					for _, n := range f.Names {
						if n.Name != "_" {
							args = append(args, n.Name)
						}
					}
				}
				c.needRT = true
				c.counts["probe"]++
				c.insert(x.Body.Lbrace+1, " simrt.Probe("+strconv.Quote(pname)+", "+strings.Join(args, ", ")+");")
			}
			c.walk(x.Body, nwc)
		}
		return
	case *ast.LabeledStmt:
		if sel, ok := x.Stmt.(*ast.SelectStmt); ok {
			c.warn(x.Pos(), "labeled select left un-instrumented")
			for _, cl := range sel.Body.List {
				cc := cl.(*ast.CommClause)
				for _, s := range cc.Body {
					c.walk(s, wc)
				}
			}
			return
		}
	case *ast.GoStmt:
		c.goStmt(x, wc)
		return
	case *ast.SelectStmt:
		c.selectStmt(x, wc)
		return
	case *ast.SendStmt:
		c.needRT = true
		c.counts["send"]++
		c.insert(x.Chan.Pos(), "simrt.Send("+c.q(x.Pos())+", ")
		c.walk(x.Chan, wc)
		c.replace(x.Chan.End(), x.Value.Pos(), ", ")
		c.walk(x.Value, wc)
		c.insert(x.Value.End(), ")")
		return
	case *ast.AssignStmt:
		if len(x.Lhs) == 2 && len(x.Rhs) == 1 {
			if u, ok := ast.Unparen(x.Rhs[0]).(*ast.UnaryExpr); ok && u.Op == token.ARROW {
				for _, l := range x.Lhs {
					c.walk(l, wc)
				}
				c.recvExpr(u, "simrt.Recv2", wc)
				return
			}
		}
	case *ast.ValueSpec:
		if len(x.Names) == 2 && len(x.Values) == 1 {
			if u, ok := ast.Unparen(x.Values[0]).(*ast.UnaryExpr); ok && u.Op == token.ARROW {
				c.recvExpr(u, "simrt.Recv2", wc)
				return
			}
		}
	case *ast.UnaryExpr:
		if x.Op == token.ARROW {
			c.recvExpr(x, "simrt.Recv", wc)
			return
		}
	case *ast.RangeStmt:
		if c.rangeStmt(x, wc) {
			return
		}
	case *ast.CallExpr:
		if c.callExpr(x, wc) {
			return
		}
	case *ast.CompositeLit:
		if sel, ok := x.Type.(*ast.SelectorExpr); ok && sel.Sel.Name == "Dialer" && c.isPkg(sel.X, "github.com/gorilla/websocket") {
			keyed := true
			has := false
			for _, el := range x.Elts {
				kv, ok := el.(*ast.KeyValueExpr)
				if !ok {
					keyed = false
					continue
				}
				if id, ok := kv.Key.(*ast.Ident); ok && (id.Name == "NetDialContext" || id.Name == "NetDial" || id.Name == "NetDialTLSContext") {
					has = true
				}
			}
			if keyed && !has {
				c.needNet = true
				c.counts["seam:Dialer"]++
				c.insert(x.Lbrace+1, " NetDialContext: simnet.DialContext,")
			} else {
				c.warn(x.Pos(), "websocket.Dialer literal not instrumented")
			}
		}
	}
	// generic traversal of children
	ast.Inspect(n, func(ch ast.Node) bool {
		if ch == n {
			return true
		}
		if ch != nil {
			c.walk(ch, wc)
		}
		return false
	})
}

func (c *fileCtx) recvExpr(u *ast.UnaryExpr, fn string, wc *walkCtx) {
	c.needRT = true
	c.counts["recv"]++
	// `<-X` -> `fn("site", X)`
	c.replace(u.Pos(), u.X.Pos(), fn+"("+c.q(u.Pos())+", ")
	c.walk(u.X, wc)
	c.insert(u.X.End(), ")")
}

func (c *fileCtx) isConstOrNil(e ast.Expr) (isConst, isNil bool) {
	tv, ok := c.info.Types[e]
	if !ok {
		return false, false
	}
	if tv.IsNil() {
		return false, true
	}
	return tv.Value != nil, false
}

func (c *fileCtx) goStmt(g *ast.GoStmt, wc *walkCtx) {
	c.needRT = true
	c.counts["go"]++
	call := g.Call
	site := c.q(g.Pos())
	if fl, ok := call.Fun.(*ast.FuncLit); ok && len(call.Args) == 0 {
		c.replace(g.Pos(), fl.Pos(), "simrt.Go("+site+", ")
		c.walk(fl.Body, wc)
		c.replace(fl.End(), call.End(), ")")
		return
	}
	// builtin or conversion: do not hoist
	hoist := true
	if tv, ok := c.info.Types[call.Fun]; ok && (tv.IsBuiltin() || tv.IsType()) {
		hoist = false
	}
	if !hoist {
		c.replace(g.Pos(), call.Pos(), "simrt.Go("+site+", func() { ")
		c.walk(call, wc)
		c.insert(call.End(), " })")
		return
	}
	c.replace(g.Pos(), call.Fun.Pos(), "{ _simf := ")
	c.walk(call.Fun, wc)
	prevEnd := call.Fun.End()
	var names []string
	for i, a := range call.Args {
		name := "_sima" + strconv.Itoa(i)
		isConst, isNil := c.isConstOrNil(a)
		switch {
		case isNil:
			c.replace(prevEnd, a.Pos(), "; _ = (any)(")
			c.insert(a.End(), ")")
			names = append(names, "nil")
		case isConst:
			c.replace(prevEnd, a.Pos(), "; const "+name+" = ")
			names = append(names, name)
		default:
			c.replace(prevEnd, a.Pos(), "; "+name+" := ")
			c.walk(a, wc)
			names = append(names, name)
		}
		prevEnd = a.End()
	}
	callArgs := strings.Join(names, ", ")
	if call.Ellipsis.IsValid() {
		callArgs += "..."
	}
	c.replace(prevEnd, call.End(), "; simrt.Go("+site+", func() { _simf("+callArgs+") }) }")
}

func (c *fileCtx) selectStmt(s *ast.SelectStmt, wc *walkCtx) {
	if len(s.Body.List) == 0 {
		return
	}
	c.needRT = true
	c.counts["select"]++
	id := strconv.Itoa(c.off(s.Pos()))
	var hdr strings.Builder
	hdr.WriteString("{ ")
	var caseVars []string
	hasDefault := false
	idx := 0
	type clauseInfo struct {
		cc   *ast.CommClause
		idx  int
		name string
	}
	var infos []clauseInfo
	for _, cl := range s.Body.List {
		cc := cl.(*ast.CommClause)
		if cc.Comm == nil {
			hasDefault = true
			infos = append(infos, clauseInfo{cc: cc, idx: -1})
			continue
		}
		name := "_simc" + id + "_" + strconv.Itoa(idx)
		switch st := cc.Comm.(type) {
		case *ast.SendStmt:
			hdr.WriteString(name + " := simrt.SendC(" + c.text(st.Chan.Pos(), st.Chan.End()) + ", " + c.text(st.Value.Pos(), st.Value.End()) + "); ")
		case *ast.ExprStmt:
			u := ast.Unparen(st.X).(*ast.UnaryExpr)
			hdr.WriteString(name + " := simrt.RecvC(" + c.text(u.X.Pos(), u.X.End()) + "); ")
		case *ast.AssignStmt:
			u := ast.Unparen(st.Rhs[0]).(*ast.UnaryExpr)
			hdr.WriteString(name + " := simrt.RecvC(" + c.text(u.X.Pos(), u.X.End()) + "); ")
		}
		caseVars = append(caseVars, name)
		infos = append(infos, clauseInfo{cc: cc, idx: idx, name: name})
		idx++
	}
	hdr.WriteString("switch simrt.Select(" + c.q(s.Pos()) + ", " + strconv.FormatBool(hasDefault))
	for _, v := range caseVars {
		hdr.WriteString(", " + v)
	}
	hdr.WriteString(") {")
	c.replace(s.Pos(), s.Body.Lbrace+1, hdr.String())
	for _, ci := range infos {
		cc := ci.cc
		head := "case " + strconv.Itoa(ci.idx) + ":"
		if as, ok := cc.Comm.(*ast.AssignStmt); ok {
			var lhs []string
			for _, l := range as.Lhs {
				lhs = append(lhs, c.text(l.Pos(), l.End()))
			}
			rhs := ci.name + ".Val"
			if len(lhs) == 2 {
				rhs += ", " + ci.name + ".Ok"
			}
			head += " " + strings.Join(lhs, ", ") + " " + as.Tok.String() + " " + rhs + ";"
			if as.Tok == token.DEFINE {
				var blanks []string
				for range lhs {
					blanks = append(blanks, "_")
				}
				head += " " + strings.Join(blanks, ", ") + " = " + strings.Join(lhs, ", ") + ";"
			}
		}
		c.replace(cc.Pos(), cc.Colon+1, head)
		for _, st := range cc.Body {
			c.walk(st, wc)
		}
	}
	// a default clause keeps the rewritten statement "terminating" whenever the
	// select was (all clauses return)
	c.insert(s.Body.Rbrace, "; default: panic(\"simrt: select\") ")
	c.insert(s.End(), "}")
}

func (c *fileCtx) rangeStmt(r *ast.RangeStmt, wc *walkCtx) bool {
	tv, ok := c.info.Types[r.X]
	if !ok {
		return false
	}
	switch tv.Type.Underlying().(type) {
	case *types.Map:
		if !pure(r.X) || (r.Tok != token.DEFINE && r.Key != nil) {
			c.warn(r.Pos(), "range over map left un-instrumented (iteration order not controlled)")
			return false
		}
		c.needRT = true
		c.counts["maprange"]++
		m := c.text(r.X.Pos(), r.X.End())
		key := "_simk"
		if id, ok := r.Key.(*ast.Ident); ok && id.Name != "_" {
			key = id.Name
		}
		hdr := "for _, " + key + " := range simrt.MapKeys(" + c.q(r.Pos()) + ", " + m + ") { "
		if r.Key == nil {
			hdr = "for range simrt.MapKeys(" + c.q(r.Pos()) + ", " + m + ") { "
		} else if id, ok := r.Value.(*ast.Ident); ok && id.Name != "_" {
			hdr += id.Name + ", _simok := " + m + "[" + key + "]; if !_simok { continue }; _ = " + id.Name + "; "
		} else {
			hdr += "if _, _simok := " + m + "[" + key + "]; !_simok { continue }; "
		}
		c.replace(r.Pos(), r.Body.Lbrace+1, hdr)
		for _, st := range r.Body.List {
			c.walk(st, wc)
		}
		return true
	case *types.Chan:
		if r.Tok == token.ASSIGN {
			c.warn(r.Pos(), "range over channel with = left un-instrumented")
			return false
		}
		c.needRT = true
		c.counts["chanrange"]++
		v := "_"
		if id, ok := r.Key.(*ast.Ident); ok {
			v = id.Name
		}
		ch := c.text(r.X.Pos(), r.X.End())
		def := ":="
		hdr := "for { " + v + ", _simok " + def + " simrt.Recv2(" + c.q(r.Pos()) + ", " + ch + "); if !_simok { break }; "
		if v != "_" {
			hdr += "_ = " + v + "; "
		}
		c.replace(r.Pos(), r.Body.Lbrace+1, hdr)
		for _, st := range r.Body.List {
			c.walk(st, wc)
		}
		return true
	}
	return false
}

func (c *fileCtx) callExpr(call *ast.CallExpr, wc *walkCtx) bool {
	switch fun := call.Fun.(type) {
	case *ast.SelectorExpr:
		name := fun.Sel.Name
		switch {
		case c.isPkg(fun.X, "math/rand", "math/rand/v2") && (name == "Intn" || name == "Int63n" || name == "Int31n" || name == "IntN" || name == "Int64N" || name == "Int32N" || name == "N"):
			c.needRT = true
			c.counts["rand"]++
			pn := fun.X.(*ast.Ident).Name
			c.replace(fun.Pos(), call.Lparen+1, "simrt.Intn("+c.q(call.Pos())+", ")
			c.tail = append(c.tail, "var _ = "+pn+".Int")
			for _, a := range call.Args {
				c.walk(a, wc)
			}
			return true
		case c.isPkg(fun.X, "time") && name == "Sleep":
			c.needRT = true
			c.counts["sleep"]++
			c.replace(fun.Pos(), fun.End(), "simrt.Sleep")
			c.tail = append(c.tail, "var _ = "+fun.X.(*ast.Ident).Name+".Second")
			for _, a := range call.Args {
				c.walk(a, wc)
			}
			return true
		case c.isPkg(fun.X, "time") && name == "AfterFunc":
			c.needRT = true
			c.counts["afterfunc"]++
			c.replace(fun.Pos(), call.Lparen+1, "simrt.AfterFunc("+c.q(call.Pos())+", ")
			c.tail = append(c.tail, "var _ = "+fun.X.(*ast.Ident).Name+".Second")
			for _, a := range call.Args {
				c.walk(a, wc)
			}
			return true
		case name == "ListenAndServeTLS" && len(call.Args) == 2:
			if tv, ok := c.info.Types[fun.X]; ok && strings.HasSuffix(tv.Type.String(), "net/http.Server") {
				c.needNet = true
				c.counts["seam:ListenAndServeTLS"]++
				c.insert(fun.X.Pos(), "simnet.ListenAndServeTLS(")
				c.walk(fun.X, wc)
				c.replace(fun.X.End(), call.Lparen+1, ", ")
				for _, a := range call.Args {
					c.walk(a, wc)
				}
				return true
			}
		case c.isPkg(fun.X, "github.com/enbility/go-avahi") && name == "ServerNew" && c.pkgName == "mdns":
			c.counts["seam:avahi.ServerNew"]++
			c.replace(fun.Pos(), fun.End(), "verifAvahiServerNew")
			c.tail = append(c.tail, "var _ = "+fun.X.(*ast.Ident).Name+".ServerNew")
			return true
		}
	case *ast.Ident:
		if c.pkgName == "mdns" && fun.Name == "NewZeroconfProvider" && len(call.Args) == 1 {
			if wc != nil && wc.recvType == "MdnsManager" && wc.recvName != "" {
				c.counts["seam:NewZeroconfProvider"]++
				c.replace(fun.Pos(), call.Lparen+1, "verifNewZeroconfProvider("+wc.recvName+", ")
				for _, a := range call.Args {
					c.walk(a, wc)
				}
				return true
			}
		}
	}
	return false
}

// ------------------------------------------------------------------ apply

func (c *fileCtx) apply() ([]byte, error) {
	if len(c.edits) == 0 {
		return c.src, nil
	}
	// package clause: add imports on the same line
	imp := ""
	if c.needRT {
		imp += `; import simrt "verif/simrt"`
	}
	if c.needNet {
		imp += `; import simnet "verif/simnet"`
	}
	if imp != "" {
		c.insert(c.file.Name.End(), imp)
	}
	sort.SliceStable(c.edits, func(i, j int) bool {
		a, b := c.edits[i], c.edits[j]
		if a.pos != b.pos {
			return a.pos < b.pos
		}
		// insertions (pos==end) at the same offset keep creation order, and
		// come before a replacement starting there only if created earlier
		return a.ord < b.ord
	})
	var out []byte
	out = append(out, []byte("//line "+"/repo/"+c.rel+":1\n")...)
	last := 0
	for _, e := range c.edits {
		if e.pos < last {
			return nil, fmt.Errorf("overlapping rewrites at offset %d (%q)", e.pos, e.text)
		}
		out = append(out, c.src[last:e.pos]...)
		repl := e.text
		if strings.Contains(repl, "\n") {
			return nil, fmt.Errorf("internal: replacement contains newline")
		}
		nl := strings.Count(string(c.src[e.pos:e.end]), "\n")
		out = append(out, repl...)
		for i := 0; i < nl; i++ {
			out = append(out, '\n')
		}
		last = e.end
	}
	out = append(out, c.src[last:]...)
	if len(c.tail) > 0 {
		seen := map[string]bool{}
		out = append(out, '\n')
		for _, t := range c.tail {
			if !seen[t] {
				seen[t] = true
				out = append(out, []byte(t+"\n")...)
			}
		}
	}
	return out, nil
}
